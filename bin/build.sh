#!/bin/bash
# Build (or reuse) the simulation binary for /repo's current working tree.
# usage: build.sh [race]   -> prints the binary path on stdout
# Exit 2 on any build trouble (never a VIOLATION).
set -u
VERIF=$(cd "$(dirname "$0")/.." && pwd)
REPO=${DSIM_REPO:-${VP_RUN_REPO:-/repo}}
MODE=${1:-plain}
export GOFLAGS=-mod=mod GOPROXY=off GOSUMDB=off GOTOOLCHAIN=local GOWORK=off
GO=go1.26.8
H=$( { cd "$REPO" && find . -name '*.go' ! -name '*_test.go' ! -path './examples/*' ! -path './test/*' ! -path './.git/*' -print0 | sort -z | xargs -0 sha256sum; sha256sum go.mod go.sum; cd "$VERIF/sim" && find . -name '*.go' -print0 | sort -z | xargs -0 sha256sum; sha256sum go.mod; } 2>/dev/null | sha256sum | cut -c1-16)
OUT="$VERIF/.build/$H"
BIN="$OUT/dsim.$MODE.test"
if [ -x "$BIN" ]; then echo "$BIN"; exit 0; fi
mkdir -p "$OUT"
exec 9>/tmp/dsim-build.lock
flock 9
if [ -x "$BIN" ]; then echo "$BIN"; exit 0; fi
SCRATCH=/tmp/dsim-scratch
rm -rf "$SCRATCH"; mkdir -p "$SCRATCH"
(
  set -e
  cd "$VERIF/sim"
  $GO build -o "$OUT/instrument" ./instrument
  "$OUT/instrument" "$REPO" "$SCRATCH/repo" > "$OUT/instrument.json"
  cp "$REPO/go.sum" "$VERIF/sim/go.sum.tmp.$$"
  # go.sum: the repository's sums plus ours (porcupine)
  cat "$VERIF/sim/go.sum.extra" >> "$VERIF/sim/go.sum.tmp.$$" 2>/dev/null || true
  sort -u "$VERIF/sim/go.sum.tmp.$$" > "$VERIF/sim/go.sum"; rm -f "$VERIF/sim/go.sum.tmp.$$"
  if [ "$MODE" = race ]; then
    $GO test -race -trimpath -c -o "$BIN" ./harness
  else
    $GO test -trimpath -c -o "$BIN" ./harness
  fi
) >"$OUT/build.$MODE.log" 2>&1
RC=$?
rm -rf "$SCRATCH"
if [ $RC -ne 0 ] || [ ! -x "$BIN" ]; then
  echo "BUILD-FAILED (see $OUT/build.$MODE.log)" >&2
  tail -30 "$OUT/build.$MODE.log" >&2
  rm -f "$BIN"
  exit 2
fi
# keep only the 24 most recent build directories
ls -1dt "$VERIF"/.build/*/ 2>/dev/null | tail -n +25 | xargs -r rm -rf
echo "$BIN"
