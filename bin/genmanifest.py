#!/usr/bin/env python3
"""Regenerate MANIFEST.json from props.json and properties.jsonl."""
import json
V='/verif/'
props=[json.loads(l) for l in open(V+'properties.jsonl')]
claimed=json.load(open(V+'props.json'))
NA=json.load(open(V+'not_applicable.json'))
base="for m in $(cat /w/out/gomods.txt); do MF=$(cd /repo/$m && . /w/out/goenv.sh && gomodflag); (cd /repo/$m && go test $MF -json -vet=off -count=1 -timeout 25m ./...); done"
man={
 "version":1,
 "setup_cmd":"bin/setup.sh",
 "hooks":{"guard":"verif","enable":"none in /repo: /verif/sim/instrument rewrites a scratch copy of /repo's working tree at check-build time (bin/build.sh); the shipped sources are compiled unchanged otherwise","baseline_off_cmd":base,"source_commits":[],"add_only":True},
 "engines":[{"name":"dsim","path":"sim","serves_properties":sorted(claimed.keys()),"kind_free_text":"deterministic simulation with fault injection: seeded cooperative scheduler in a testing/synctest bubble over an AST-instrumented copy of failsafe-go"}],
 "checks":[],"not_applicable":[],
 "notes":"See DESIGN.md. bin/check <ID> quick|thorough; replay with bin/check <ID> --replay <file>. Known findings and fixes: known_findings.json."
}
for p in props:
    pid=p['id']
    if pid in claimed:
        m=claimed[pid]
        man['checks'].append({
          "property_id":pid,"quick_cmd":"bin/check %s quick"%pid,"thorough_cmd":"bin/check %s thorough"%pid,
          "evidence_file":"evidence/%s.json"%pid,"replay_cmd_template":"bin/check %s --replay {path}"%pid,"engine":"dsim",
          "level_claimed":{"category":m['level'],"text":m.get('level_text') or ("seeded search over generated scenarios, schedules and fault points in a deterministic simulation of the real library code; a clean batch is evidence, not proof" if m['level']=="exploration" else "for every sampled scenario and base schedule the fault is injected at every scheduler step (every window, including zero-duration ones); scenarios and base schedules are sampled by seeded search"),"design_ref":"DESIGN.md §6 "+pid},
          "level_note":m.get('level_note') or "trusted: Go 1.26.8 testing/synctest fake clock, the simrt scheduler and AST instrumenter in /verif/sim, the sequential local models in harness/models.go; user-side objects (function, listeners, cache) are scripted stubs",
          "technique":m.get('technique','deterministic simulation with fault injection (seeded schedule and fault search)')})
    else:
        man['not_applicable'].append({"property_id":pid,"reason":NA.get(pid,"check not built yet in this revision (work in progress; see DESIGN.md §9)")})
json.dump(man,open(V+'MANIFEST.json','w'),indent=1)
print(len(man['checks']),'checks,',len(man['not_applicable']),'not applicable')
