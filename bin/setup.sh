#!/bin/bash
# Run once after a fresh restore, offline: builds the instrumenter and both
# simulation binaries for /repo's current tree and warms the Go build cache.
set -e
cd "$(dirname "$0")/.."
bin/build.sh plain >/dev/null
bin/build.sh race >/dev/null
echo setup ok
