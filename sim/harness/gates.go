package harness

import (
	"errors"
	"fmt"
	"sort"
	"time"

	"github.com/failsafe-go/failsafe-go/bulkhead"
	"github.com/failsafe-go/failsafe-go/circuitbreaker"
	"github.com/failsafe-go/failsafe-go/ratelimiter"
)

// checkGateState compares the admission decisions of the stateful gate
// policies (bulkhead, rate limiter, circuit breaker) and their state after the
// run with their sequential reference models, for runs in which one client
// drives the policies (the order of requests is then the order of events).
func checkGateState(c *checkCtx, prefix string) {
	sc := c.Res.Sc
	if sc.Adapter != nil || sc.NoProbes {
		return
	}
	type call struct {
		v *ExecView
		n *Node
	}
	calls := map[int][]call{} // by policy instance
	unsafe := map[int]bool{}  // instances whose request order is not observable (hedged attempts, repeated in a stack)
	for _, v := range c.Views {
		hedgeAbove := false
		seen := map[int]int{}
		for _, pi := range v.Stack {
			seen[pi]++
		}
		for pos, pi := range v.Stack {
			k := sc.Policies[pi].Kind
			if hedgeAbove || seen[pi] > 1 {
				unsafe[pi] = true
			}
			if k == KHedge {
				hedgeAbove = true
			}
			_ = pos
		}
		for _, n := range v.Nodes {
			if n.Pos < len(v.Stack) {
				pi := v.Stack[n.Pos]
				calls[pi] = append(calls[pi], call{v, n})
			}
		}
		if v.Cancel0 != nil {
			for _, pi := range v.Stack {
				unsafe[pi] = true
			}
		}
	}
	sequential := len(sc.Clients) == 1
	for pi := range sc.Policies {
		p := &sc.Policies[pi]
		cs := calls[pi]
		sort.Slice(cs, func(i, j int) bool { return cs[i].n.Enter.Seq < cs[j].n.Enter.Seq })
		switch p.Kind {
		case KBulkhead:
			// state after the run: every permit is back, except those still held through the standalone API
			if free, ok := c.Res.FreeBulkhead[pi]; ok {
				acq, rel := 0, 0
				for i := range c.Res.Log.Ev {
					e := &c.Res.Log.Ev[i]
					if e.Kind == EvStandalone && e.Pos == pi {
						if (e.Str == "bh.try" || e.Str == "bh.acquire_wait" || e.Str == "bh.acquire_ctx") && e.L == 1 && e.A == 1 {
							acq++
						}
						if e.Str == "bh.release" && e.L == 1 {
							rel++
						}
					}
				}
				c.cov("gate.bulkhead_state_checked")
				if free != int(p.MaxConc)-(acq-rel) {
					c.fail(prefix+"bulkhead-state", fmt.Sprintf("free=%d", free-(int(p.MaxConc)-(acq-rel))), fmt.Sprintf("after the run bulkhead %d has %d free permits; expected maxConcurrency %d minus %d held through the standalone API", pi, free, p.MaxConc, acq-rel))
				}
			}
			if !sequential || unsafe[pi] {
				continue
			}
			// admission: refused with ErrFull only when every permit is in use
			for _, x := range cs {
				n := x.n
				if n.Exit == nil {
					continue
				}
				at := n.Enter.Seq
				if len(n.Children) > 0 {
					at = n.Children[0].Enter.Seq
				}
				inUse := 0
				for _, y := range cs {
					m := y.n
					if m == n || len(m.Children) == 0 {
						continue
					}
					end := 1 << 30
					if m.Exit != nil {
						end = m.Exit.Seq
					}
					if m.Children[0].Enter.Seq < at && at < end {
						inUse++
					}
				}
				held := 0
				for i := range c.Res.Log.Ev {
					e := &c.Res.Log.Ev[i]
					if e.Seq >= at {
						break
					}
					if e.Kind == EvStandalone && e.Pos == pi && e.L == 1 {
						if (e.Str == "bh.try" || e.Str == "bh.acquire_wait" || e.Str == "bh.acquire_ctx") && e.A == 1 {
							held++
						}
						if e.Str == "bh.release" {
							held--
						}
					}
				}
				full := inUse+held >= int(p.MaxConc)
				refused := len(n.Children) == 0 && errors.Is(n.Exit.Err, bulkhead.ErrFull)
				c.cov("gate.bulkhead_admissions_checked")
				if refused && !full {
					c.fail(prefix+"bulkhead-admission", "refused-free", fmt.Sprintf("exec %d: bulkhead %d refused the attempt with ErrFull although only %d of %d permits were in use", x.v.ID, pi, inUse+held, p.MaxConc))
				}
				if len(n.Children) > 0 && full {
					c.fail(prefix+"bulkhead-admission", "admitted-full", fmt.Sprintf("exec %d: bulkhead %d admitted the attempt although %d of %d permits were in use", x.v.ID, pi, inUse+held, p.MaxConc))
				}
			}
		case KLimiter:
			if !sequential || unsafe[pi] {
				continue
			}
			m := newRlModel(p)
			type req struct {
				seq  int
				t    time.Duration
				k    int
				max  time.Duration
				node *Node
				ev   *Event
				v    *ExecView
			}
			var reqs []req
			for _, x := range cs {
				if x.n.Exit != nil {
					reqs = append(reqs, req{seq: x.n.Enter.Seq, t: x.n.Enter.T, k: 1, max: p.MaxWait, node: x.n, v: x.v})
				}
			}
			inv := map[int]*Event{}
			for i := range c.Res.Log.Ev {
				e := &c.Res.Log.Ev[i]
				if e.Kind == EvStandalone && e.Pos == pi && len(e.Str) > 3 && e.Str[:3] == "rl." {
					if e.L == 0 {
						inv[e.Task] = e
					} else if iv := inv[e.Task]; iv != nil {
						r := req{seq: iv.Seq, t: iv.T, k: int(e.B), ev: e}
						switch e.Str {
						case "rl.try":
							r.max = 0
						case "rl.reserve":
							r.max = -1
						default:
							r.max = -2 // max wait not recorded here: keep the model in step by trusting the answer
						}
						reqs = append(reqs, r)
					}
				}
			}
			sort.Slice(reqs, func(i, j int) bool { return reqs[i].seq < reqs[j].seq })
			for _, r := range reqs {
				if r.max == -2 {
					return
				}
				want := m.request(r.t, r.k, r.max)
				c.cov("gate.limiter_requests_checked")
				if r.node != nil {
					n := r.node
					refused := len(n.Children) == 0
					if refused && !errors.Is(n.Exit.Err, ratelimiter.ErrExceeded) {
						if n.Exit.Flags&FIsCanceled == 0 {
							c.fail(prefix+"limiter-admission", "error", fmt.Sprintf("exec %d: rate limiter %d ended the attempt requested at t=%v with %s although the execution was not cancelled", r.v.ID, pi, r.t, fmtErr(n.Exit.Err)))
							return
						}
						// the wait was cancelled: the permit stays reserved, as in the model
						c.cov("gate.limiter_wait_cancelled")
						continue
					}
					if refused != (want == -1) {
						c.fail(prefix+"limiter-admission", "refusal", fmt.Sprintf("exec %d: rate limiter %d %s the attempt requested at t=%v but the earliest admissible grant is %s", r.v.ID, pi, map[bool]string{true: "refused", false: "admitted"}[refused], r.t, waitStr(want)))
						return
					}
					if !refused {
						if got := n.Children[0].Enter.T - n.Enter.T; got != want {
							c.fail(prefix+"limiter-admission", "wait", fmt.Sprintf("exec %d: rate limiter %d let the attempt requested at t=%v through after %v; the permit becomes usable after %v", r.v.ID, pi, r.t, got, want))
							return
						}
					}
				}
			}
		case KBreaker:
			if !sequential || unsafe[pi] {
				continue
			}
			// executions only (C01 scenarios make no standalone breaker calls)
			standalone := false
			for i := range c.Res.Log.Ev {
				e := &c.Res.Log.Ev[i]
				if e.Kind == EvStandalone && e.Pos == pi {
					standalone = true
				}
			}
			if standalone {
				continue
			}
			m := newBrModel(p)
			// records happen when the inner call returns; admissions when the breaker call is entered: replay in that order
			type step struct {
				seq   int
				admit bool
				x     call
			}
			var steps []step
			for _, x := range cs {
				if x.n.Exit == nil {
					steps = nil
					break
				}
				steps = append(steps, step{x.n.Enter.Seq, true, x})
				if len(x.n.Children) > 0 {
					if x.n.Children[0].Exit == nil {
						steps = nil
						break
					}
					steps = append(steps, step{x.n.Children[0].Exit.Seq, false, x})
				}
			}
			sort.Slice(steps, func(i, j int) bool { return steps[i].seq < steps[j].seq })
			for _, s := range steps {
				n := s.x.n
				if s.admit {
					ok, _ := m.tryAcquire(n.Enter.T)
					admitted := len(n.Children) > 0
					c.cov("gate.breaker_admissions_checked")
					if !admitted && !errors.Is(n.Exit.Err, circuitbreaker.ErrOpen) {
						return
					}
					if ok != admitted {
						c.fail(prefix+"breaker-admission", "admission", fmt.Sprintf("exec %d: circuit breaker %d %s the attempt at t=%v but the documented machine (state %s, remaining delay %v) %s it", s.x.v.ID, pi, map[bool]string{true: "admitted", false: "refused"}[admitted], n.Enter.T, brStateNames[m.state], m.remaining(n.Enter.T), map[bool]string{true: "admits", false: "refuses"}[ok]))
						return
					}
					continue
				}
				ch := n.Children[0]
				f := isFailure(p.Handle, ch.Exit.Val, ch.Exit.Err)
				if f == Either {
					return
				}
				delay := p.Delay
				for _, e := range s.x.v.Events {
					if e.Kind == EvDelayFn && e.Pos == pi && e.Seq > ch.Exit.Seq && e.Seq < n.Exit.Seq && e.A != -1 {
						delay = time.Duration(e.A)
					}
				}
				if _, amb := m.record(ch.Exit.T, f == Yes, delay); amb {
					return // window ambiguity: stop comparing this breaker
				}
			}
			// state after the history (a breaker changes state only on a request or a record)
			if end, ok := c.Res.BreakerEnd[pi]; ok && len(steps) > 0 {
				c.cov("gate.breaker_state_checked")
				if end[0] != m.state {
					c.fail(prefix+"breaker-state", "end-state", fmt.Sprintf("after the history circuit breaker %d is %s but the documented machine is %s", pi, brStateNames[end[0]], brStateNames[m.state]))
				}
			}
		}
	}
}
