package harness

import (
	"testing"
	"time"

	"dsim/simrt"
)

// Tier parameters.
type Tier struct {
	Name     string
	Thorough bool
}

// Case is one generated unit of work: a scenario plus how to explore it.
type Case struct {
	Sc    *Scenario
	Cfg   simrt.Config
	Sweep bool // run once as base, then once per scheduler step with the fault fired at that step
}

// PropDef describes how one property is decided.
type PropDef struct {
	ID    string
	Level string // exploration | fault_enumeration
	// Runs per tier (cases, not counting sweep expansions)
	QuickCases, ThoroughCases int
	Race                      bool
	Stalls                    bool // the property's oracles tolerate injected stalls (a task descheduled for a while at a scheduling point)
	Gen                       func(r *Rnd, t Tier) *Case
	Check                     func(c *checkCtx)
	Valid                     func(sc *Scenario) bool // premise of the property; shrinking stays inside it
	Rule                      string
	Components                []string
	Stubs                     []string
	Assumptions               []string
}

// checkCtx carries one run's results to the oracles.
type checkCtx struct {
	T       *testing.T
	Prop    string
	Res     *RunResult
	Base    *RunResult // base run of a sweep (nil for the base itself)
	Views   []*ExecView
	Cov     map[string]int
	Viol    []Violation
	baseCfg simrt.Config // configuration to recompute the base run with (replay)
	twin    *RunResult   // synchronous twin of an asynchronous scenario
}

// base returns the run of the same scenario with every injected cancellation
// source disabled, under the same scheduling configuration.
func (c *checkCtx) base() *RunResult {
	if c.Base == nil {
		cfg := c.baseCfg
		cfg.Replay = nil
		c.Base = runScenario(c.T, baseOf(c.Res.Sc), cfg)
		curLog = c.Res.Log
	}
	return c.Base
}

const never = 1 << 30

// baseOf disables the injected cancellation sources of sc.
func baseOf(sc *Scenario) *Scenario {
	b := cloneScenario(sc)
	for ci := range b.Clients {
		for oi := range b.Clients[ci].Ops {
			op := &b.Clients[ci].Ops[oi]
			if op.ProbeStep != 0 && op.CancelSrc == SrcNone {
				op.ProbeStep = never
			}
			switch op.CancelSrc {
			case SrcCtxCancel, SrcResultCancel:
				op.CancelStep = never
				if op.ProbeStep != 0 {
					op.ProbeStep = never
				}
			case SrcCtxDeadline:
				op.CtxD = 1000000 * time.Hour
			case SrcTimeout:
				for _, pi := range b.Stacks[op.Stack] {
					if b.Policies[pi].Kind == KTimeout {
						b.Policies[pi].Limit = 1000000 * time.Hour
					}
				}
			}
		}
	}
	b.Note = "base"
	return b
}

func (c *checkCtx) cov(name string) { c.Cov[name]++ }

func (c *checkCtx) fail(oracle, sig, msg string) {
	if len(c.Viol) < 8 {
		c.Viol = append(c.Viol, Violation{Oracle: oracle, Sig: sig, Msg: msg, Seq: -1})
	}
}

var props = map[string]*PropDef{}

func register(p *PropDef) { props[p.ID] = p }
