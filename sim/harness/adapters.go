package harness

import (
	"bytes"
	"context"
	"errors"
	"fmt"
	"io"
	"net/http"
	"net/url"
	"strconv"
	"strings"
	"time"

	"github.com/failsafe-go/failsafe-go"
	"github.com/failsafe-go/failsafe-go/circuitbreaker"
	"github.com/failsafe-go/failsafe-go/failsafegrpc"
	"github.com/failsafe-go/failsafe-go/failsafehttp"
	"github.com/failsafe-go/failsafe-go/fallback"
	"github.com/failsafe-go/failsafe-go/hedgepolicy"
	"github.com/failsafe-go/failsafe-go/retrypolicy"
	"github.com/failsafe-go/failsafe-go/timeout"
	"google.golang.org/grpc"
	"google.golang.org/grpc/codes"
	"google.golang.org/grpc/metadata"
	"google.golang.org/grpc/status"
	"google.golang.org/grpc/tap"

	"dsim/simrt"
)

// ---- scenario ----------------------------------------------------------------

// Request body kinds.
const (
	BodyNil = iota
	BodyBuffer
	BodyBytesReader
	BodySeeker
	BodyStream
	BodyEmpty
	BodySeekCloser // a seekable body whose Close really invalidates it (like *os.File)
	BodySeekFails  // an io.ReadSeeker + io.Closer whose Seek always fails (a pipe, a closed file): no attempt can be prepared (C19 scenarios only)
)

// Caller context kinds for adapters.
const (
	ACtxBackground = iota
	ACtxTODO
	ACtxCancel
	ACtxValues
	ACtxDeadline
	ACtxNone           // executor without WithContext (executor side only)
	ACtxDeadlineValues // deadline and values (request side: also gRPC metadata)
)

type AdapterPolicy struct {
	Kind       string `json:"kind"` // retry | timeout | hedge | breaker | fallback
	MaxRetries int    `json:"max_retries,omitempty"`
	ReturnLast bool   `json:"return_last,omitempty"`
	Delay      D      `json:"delay,omitempty"`
	Limit      D      `json:"limit,omitempty"`
	MaxHedges  int    `json:"max_hedges,omitempty"`
	FailThr    uint   `json:"fail_thr,omitempty"`
}

type ServerStep struct {
	Status         int  `json:"status,omitempty"`
	RetryAfter     int  `json:"retry_after,omitempty"` // seconds; 0 = header absent
	ConnErr        bool `json:"conn_err,omitempty"`
	ConnErrTimeout bool `json:"conn_err_timeout,omitempty"` // the connection error is a per-try timeout of the transport (errors.Is context.DeadlineExceeded, like http.Client.Timeout's) while nobody's context has expired
	Delay          D    `json:"delay,omitempty"`
	BodySize       int  `json:"body_size,omitempty"`
	Chunks         int  `json:"chunks,omitempty"`
	ChunkDelay     D    `json:"chunk_delay,omitempty"`
	Code           int  `json:"code,omitempty"`        // gRPC status code (0 = OK)
	PlainErr       bool `json:"plain_err,omitempty"`   // gRPC: a non-status error
	LateUpload     bool `json:"late_upload,omitempty"` // HTTP: the server answers before the request body has been uploaded; the transport keeps reading the body after RoundTrip returned, as net/http's may
	Wrapped        bool `json:"wrapped,omitempty"`     // gRPC: the status error arrives wrapped (fmt.Errorf with %w), as a handler or an inner interceptor annotating its errors returns it
}

type AdapterSpec struct {
	Proto       string          `json:"proto"` // http | grpc-client | grpc-server | grpc-tap
	ViaRequest  bool            `json:"via_request,omitempty"`
	ViaClient   bool            `json:"via_client,omitempty"`
	ViaPolicies bool            `json:"via_policies,omitempty"` // the constructor taking policies instead of an executor (only without an executor context)
	Method      string          `json:"method,omitempty"`
	Body        int             `json:"body,omitempty"`
	BodySize    int             `json:"body_size,omitempty"`
	ReqCtx      int             `json:"req_ctx,omitempty"`
	ExecCtx     int             `json:"exec_ctx,omitempty"`
	CtxD        D               `json:"ctx_d,omitempty"`
	CtxD2       D               `json:"ctx_d2,omitempty"` // deadline of the executor's context
	Policies    []AdapterPolicy `json:"policies"`
	Server      []ServerStep    `json:"server"`
	UploadDelay D               `json:"upload_delay,omitempty"` // the transport takes this long per piece of the request body (slow upload)
	CancelAt    D               `json:"cancel_at,omitempty"`    // cancel the cancellable caller context this long after the call started (0 = never)
	Repeat      int             `json:"repeat,omitempty"`
	Redo        bool            `json:"redo,omitempty"` // HTTP with a body that is an io.ReadSeeker and an io.Closer itself (http.NewRequest leaves it unwrapped, the adapter rewinds it per attempt): the same request is executed a second time after the first call returned
}

// Adapter event sub kinds (Event.Kind == EvAdapter, L = sub kind).
const (
	AdAttempt    = iota + 1 // A = attempt index, B = bit mask of fidelity problems, Str = details
	AdAttemptEnd            // transport/invoker returns: A = index, Err
	AdReturn                // call returned to the caller: Val = status/reply, Err
	AdBodyRead              // caller read the returned body: A = bytes read, B = expected bytes, Err
	AdBodyClose             // Close called on response body A (attempt index)
	AdCallerCancel
	AdRedo     // the same request object is about to be executed a second time
	AdLateBody // the upload that continued after the response was returned has ended (A attempt, B problem mask)
)

const EvAdapter = 100

// fidelity problem bits
const (
	PMethod = 1 << iota
	PURL
	PHeader
	PBody
	PCtxValue
	PCtxDeadline
	PCtxMetadata
	PArgs
	PCtxNotDone // the caller's context was done but the attempt's was not
)

var problemNames = []string{"method", "url", "header", "body", "context value", "context deadline", "metadata", "arguments", "attempt context not done although the caller's is"}

func problemText(mask int64) string {
	var s []string
	for i, n := range problemNames {
		if mask&(1<<uint(i)) != 0 {
			s = append(s, n)
		}
	}
	return strings.Join(s, ", ")
}

type valKey string

// ---- world --------------------------------------------------------------------

type adapterWorld struct {
	log       *Log
	spec      *AdapterSpec
	body      []byte
	attempts  int
	bodies    []*simBody
	reqCtx    context.Context
	execCtx   context.Context
	cancelReq context.CancelFunc
	cancelEx  context.CancelFunc
	deadline  time.Time
}

func patternBytes(n int) []byte {
	b := make([]byte, n)
	for i := range b {
		b[i] = byte('a' + i%23)
	}
	return b
}

//go:norace
func (w *adapterWorld) nextAttempt() int {
	n := w.attempts
	w.attempts++
	return n
}

//go:norace
func (w *adapterWorld) addBody(b *simBody) { w.bodies = append(w.bodies, b) }

func (w *adapterWorld) step(n int) ServerStep {
	if len(w.spec.Server) == 0 {
		return ServerStep{Status: 200}
	}
	if n >= len(w.spec.Server) {
		n = len(w.spec.Server) - 1
	}
	return w.spec.Server[n]
}

func (s *AdapterSpec) reqDeadline() bool {
	return s.ReqCtx == ACtxDeadline || s.ReqCtx == ACtxDeadlineValues
}

func (s *AdapterSpec) execDeadline() bool {
	return s.ExecCtx == ACtxDeadline || s.ExecCtx == ACtxDeadlineValues
}

// deadlinePassed reports whether a deadline of the caller's or the executor's context lies at or before instant t.
func (s *AdapterSpec) deadlinePassed(t time.Duration) bool {
	return (s.reqDeadline() && t >= s.CtxD) || (s.execDeadline() && t >= s.CtxD2)
}

func (w *adapterWorld) mkCtx(kind int, which string) (context.Context, context.CancelFunc) {
	switch kind {
	case ACtxTODO:
		return context.TODO(), nil
	case ACtxCancel:
		return context.WithCancel(context.Background())
	case ACtxValues:
		ctx := context.WithValue(context.Background(), valKey(which), "value-of-"+which)
		if w.spec.Proto != "http" && which == "req" {
			ctx = metadata.NewOutgoingContext(ctx, metadata.Pairs("k-out", "v-out"))
			ctx = metadata.NewIncomingContext(ctx, metadata.Pairs("k-in", "v-in"))
		}
		return ctx, nil
	case ACtxDeadline, ACtxDeadlineValues:
		ctx := context.Background()
		if kind == ACtxDeadlineValues {
			ctx = context.WithValue(ctx, valKey(which), "value-of-"+which)
			if w.spec.Proto != "http" && which == "req" {
				ctx = metadata.NewOutgoingContext(ctx, metadata.Pairs("k-out", "v-out"))
				ctx = metadata.NewIncomingContext(ctx, metadata.Pairs("k-in", "v-in"))
			}
		}
		if which == "exec" {
			return context.WithDeadline(ctx, time.Now().Add(w.spec.CtxD2))
		}
		w.deadline = time.Now().Add(w.spec.CtxD)
		return context.WithDeadline(ctx, w.deadline)
	case ACtxNone:
		return nil, nil
	}
	return context.Background(), nil
}

// checkAttemptCtx compares the context an attempt runs under with the caller's.
func (w *adapterWorld) checkAttemptCtx(ctx context.Context) int64 {
	var p int64
	if w.spec.ReqCtx == ACtxValues || w.spec.ReqCtx == ACtxDeadlineValues {
		if ctx.Value(valKey("req")) != "value-of-req" {
			p |= PCtxValue
		}
		if w.spec.Proto != "http" {
			if md, ok := metadata.FromOutgoingContext(ctx); !ok || len(md.Get("k-out")) != 1 {
				p |= PCtxMetadata
			}
			if md, ok := metadata.FromIncomingContext(ctx); !ok || len(md.Get("k-in")) != 1 {
				p |= PCtxMetadata
			}
		}
	}
	if w.spec.reqDeadline() {
		// the caller's deadline; an earlier one when the executor's context has an earlier deadline of its own
		dl, ok := ctx.Deadline()
		if !ok || dl.After(w.deadline) || (!w.spec.execDeadline() && !dl.Equal(w.deadline)) {
			p |= PCtxDeadline
		}
	}
	if w.reqCtx != nil && w.reqCtx.Err() != nil && ctx.Err() == nil {
		p |= PCtxNotDone
	}
	return p
}

// ---- HTTP -----------------------------------------------------------------------

type simBody struct {
	w       *adapterWorld
	attempt int
	ctx     context.Context
	data    []byte
	off     int
	chunk   int
	delay   time.Duration
	closed  int
}

func (b *simBody) Read(p []byte) (int, error) {
	if b.ctx.Err() != nil {
		return 0, b.ctx.Err()
	}
	if b.off >= len(b.data) {
		return 0, io.EOF
	}
	if b.delay > 0 && b.off > 0 {
		if waitOrCancel(b.delay, b.ctx.Done(), "http.body") {
			return 0, b.ctx.Err()
		}
	}
	n := b.chunk
	if n <= 0 || n > len(b.data)-b.off {
		n = len(b.data) - b.off
	}
	if n > len(p) {
		n = len(p)
	}
	copy(p, b.data[b.off:b.off+n])
	b.off += n
	return n, nil
}

func (b *simBody) Close() error {
	simrt.Yield("http.body.close")
	b.noteClose()
	b.w.log.add(Event{Kind: EvAdapter, L: AdBodyClose, A: int64(b.attempt)})
	return nil
}

//go:norace
func (b *simBody) noteClose() { b.closed++ }

type connError struct{}

func (connError) Error() string   { return "simulated connection reset" }
func (connError) Timeout() bool   { return false }
func (connError) Temporary() bool { return true }

var errConn error = connError{}

// tryTimeoutError: what a transport's own per-try time limit produces; like net/http's timeout error it
// matches context.DeadlineExceeded although neither the request's nor the executor's context has expired.
type tryTimeoutError struct{}

func (tryTimeoutError) Error() string {
	return "simulated transport: timeout awaiting response headers"
}
func (tryTimeoutError) Timeout() bool        { return true }
func (tryTimeoutError) Temporary() bool      { return true }
func (tryTimeoutError) Is(target error) bool { return target == context.DeadlineExceeded }

var errTryTimeout error = tryTimeoutError{}

type simTransport struct{ w *adapterWorld }

func (t *simTransport) RoundTrip(req *http.Request) (*http.Response, error) {
	w := t.w
	simrt.Yield("http.roundtrip")
	n := w.nextAttempt()
	var prob int64
	var details []string
	if req.Method != w.spec.Method {
		prob |= PMethod
		details = append(details, "method="+req.Method)
	}
	if req.URL == nil || req.URL.String() != "http://sim.test/path?q=1" {
		prob |= PURL
	}
	if req.Header.Get("X-Test") != "header-value" {
		prob |= PHeader
	}
	var got []byte
	late := req.Body != nil && w.step(n).LateUpload && (w.spec.Body == BodyBuffer || w.spec.Body == BodyBytesReader || w.spec.Body == BodyStream)
	upload := func(first bool) (cut bool) {
		// like a real transport, the body is written out piecewise while other attempts may run
		chunk := len(w.body)/4 + 1
		buf := make([]byte, chunk)
		for {
			k, rerr := req.Body.Read(buf)
			got = append(got, buf[:k]...)
			if rerr != nil || len(got) > len(w.body)+chunk {
				break
			}
			if first {
				return false // the rest follows after the response
			}
			if w.spec.UploadDelay > 0 {
				if waitOrCancel(w.spec.UploadDelay, req.Context().Done(), "http.body.write") {
					return true
				}
			} else {
				simrt.Yield("http.body.write")
			}
		}
		req.Body.Close()
		return false
	}
	if req.Body != nil {
		upload(late)
	}
	if late {
		// the server answers at once; the upload goes on in the background until it is complete or the attempt's context ends
		body := req.Body
		ctx := req.Context()
		simrt.Go("sim.transport.late-upload", func() {
			cut := upload(false)
			var p int64
			if !cut && ctx.Err() == nil && !bytes.Equal(got, w.body) {
				p = PBody
			}
			w.log.add(Event{Kind: EvAdapter, L: AdLateBody, A: int64(n), B: p, Str: fmt.Sprintf("body: got %d bytes, want %d", len(got), len(w.body))})
			_ = body
		})
	} else if !bytes.Equal(got, w.body) {
		prob |= PBody
		details = append(details, fmt.Sprintf("body: got %d bytes, want %d", len(got), len(w.body)))
	}
	prob |= w.checkAttemptCtx(req.Context())
	w.log.add(Event{Kind: EvAdapter, L: AdAttempt, A: int64(n), B: prob, Str: strings.Join(details, "; ")})
	st := w.step(n)
	if st.Delay > 0 {
		if waitOrCancel(st.Delay, req.Context().Done(), "http.server") {
			w.log.add(Event{Kind: EvAdapter, L: AdAttemptEnd, A: int64(n), Err: req.Context().Err()})
			return nil, req.Context().Err()
		}
	} else if req.Context().Err() != nil {
		w.log.add(Event{Kind: EvAdapter, L: AdAttemptEnd, A: int64(n), Err: req.Context().Err()})
		return nil, req.Context().Err()
	}
	if st.ConnErr {
		err := errConn
		if st.ConnErrTimeout {
			err = errTryTimeout
		}
		w.log.add(Event{Kind: EvAdapter, L: AdAttemptEnd, A: int64(n), Err: err})
		return nil, err
	}
	body := &simBody{w: w, attempt: n, ctx: req.Context(), data: patternBytes(st.BodySize), delay: st.ChunkDelay}
	if st.Chunks > 1 {
		body.chunk = (st.BodySize + st.Chunks - 1) / st.Chunks
	}
	w.addBody(body)
	status := st.Status
	if status == 0 {
		status = 200
	}
	resp := &http.Response{StatusCode: status, Status: strconv.Itoa(status) + " " + http.StatusText(status), Proto: "HTTP/1.1", ProtoMajor: 1, ProtoMinor: 1,
		Header: http.Header{}, Body: body, ContentLength: int64(st.BodySize), Request: req}
	resp.Header.Set("X-Attempt", strconv.Itoa(n))
	if st.RetryAfter > 0 {
		resp.Header.Set("Retry-After", strconv.Itoa(st.RetryAfter))
	}
	w.log.add(Event{Kind: EvAdapter, L: AdAttemptEnd, A: int64(n), B: int64(status)})
	return resp, nil
}

type seekBody struct{ *bytes.Reader }

// closableSeeker fails every operation after Close, like a closed file.
type closableSeeker struct {
	r      *bytes.Reader
	closed bool
}

var errBodyClosed = errors.New("request body already closed")

func (c *closableSeeker) Read(p []byte) (int, error) {
	if c.closed {
		return 0, errBodyClosed
	}
	return c.r.Read(p)
}
func (c *closableSeeker) Seek(off int64, whence int) (int64, error) {
	if c.closed {
		return 0, errBodyClosed
	}
	return c.r.Seek(off, whence)
}
func (c *closableSeeker) Close() error { c.closed = true; return nil }

type streamBody struct{ r io.Reader }

func (s streamBody) Read(p []byte) (int, error) { return s.r.Read(p) }

func adapterPolicies[R any](spec *AdapterSpec, httpRetry func() retrypolicy.RetryPolicyBuilder[R]) []failsafe.Policy[R] {
	var out []failsafe.Policy[R]
	for _, p := range spec.Policies {
		switch p.Kind {
		case "retry":
			b := httpRetry()
			b.WithMaxRetries(p.MaxRetries)
			if p.ReturnLast {
				b.ReturnLastFailure()
			}
			out = append(out, b.Build())
		case "timeout":
			out = append(out, timeout.With[R](p.Limit))
		case "hedge":
			out = append(out, hedgepolicy.BuilderWithDelay[R](p.Delay).WithMaxHedges(p.MaxHedges).Build())
		case "breaker":
			out = append(out, circuitbreaker.Builder[R]().WithFailureThreshold(p.FailThr).WithDelay(time.Minute).Build())
		case "fallback":
			out = append(out, fallback.WithError[R](errFallback))
		}
	}
	return out
}

func (w *adapterWorld) setupContexts() {
	w.reqCtx, w.cancelReq = w.mkCtx(w.spec.ReqCtx, "req")
	w.execCtx, w.cancelEx = w.mkCtx(w.spec.ExecCtx, "exec")
	if w.spec.CancelAt > 0 {
		cancel := w.cancelReq
		if w.spec.ReqCtx != ACtxCancel {
			cancel = w.cancelEx
		}
		if cancel != nil && (w.spec.ReqCtx == ACtxCancel || w.spec.ExecCtx == ACtxCancel) {
			d := w.spec.CancelAt
			simrt.S.Spawn(1, func() {
				sleep(d)
				w.log.add(Event{Kind: EvAdapter, L: AdCallerCancel})
				cancel()
			})
		}
	}
}

func (w *adapterWorld) runHTTP() {
	spec := w.spec
	w.body = nil
	var body io.Reader
	switch spec.Body {
	case BodyBuffer:
		w.body = patternBytes(spec.BodySize)
		body = bytes.NewBuffer(append([]byte(nil), w.body...))
	case BodyBytesReader:
		w.body = patternBytes(spec.BodySize)
		body = bytes.NewReader(w.body)
	case BodySeeker:
		w.body = patternBytes(spec.BodySize)
		body = seekBody{bytes.NewReader(w.body)}
	case BodyStream:
		w.body = patternBytes(spec.BodySize)
		body = streamBody{bytes.NewReader(w.body)}
	case BodyEmpty:
		body = http.NoBody
	case BodySeekCloser:
		w.body = patternBytes(spec.BodySize)
		body = &closableSeeker{r: bytes.NewReader(w.body)}
	case BodySeekFails:
		w.body = patternBytes(spec.BodySize)
		body = &closableSeeker{r: bytes.NewReader(w.body), closed: true}
	}
	w.setupContexts()
	req, err := http.NewRequestWithContext(w.reqCtx, spec.Method, "http://sim.test/path?q=1", body)
	if err != nil {
		panic(err)
	}
	req.Header.Set("X-Test", "header-value")
	pols := adapterPolicies[*http.Response](spec, failsafehttp.RetryPolicyBuilder)
	ex := failsafe.NewExecutor[*http.Response](pols...)
	if w.execCtx != nil {
		ex = ex.WithContext(w.execCtx)
	}
	tr := &simTransport{w}
	var resp *http.Response
	viaPolicies := spec.ViaPolicies && w.execCtx == nil
	var call func() (*http.Response, error)
	switch {
	case spec.ViaRequest && viaPolicies:
		fr := failsafehttp.NewRequest(req, &http.Client{Transport: tr}, pols...)
		call = fr.Do
	case spec.ViaRequest:
		fr := failsafehttp.NewRequestWithExecutor(req, &http.Client{Transport: tr}, ex)
		call = fr.Do
	case spec.ViaClient && viaPolicies:
		cl := &http.Client{Transport: failsafehttp.NewRoundTripper(tr, pols...)}
		call = func() (*http.Response, error) { return cl.Do(req) }
	case spec.ViaClient:
		cl := &http.Client{Transport: failsafehttp.NewRoundTripperWithExecutor(tr, ex)}
		call = func() (*http.Response, error) { return cl.Do(req) }
	case viaPolicies:
		rt := failsafehttp.NewRoundTripper(tr, pols...)
		call = func() (*http.Response, error) { return rt.RoundTrip(req) }
	default:
		rt := failsafehttp.NewRoundTripperWithExecutor(tr, ex)
		call = func() (*http.Response, error) { return rt.RoundTrip(req) }
	}
	resp, err = call()
	if spec.Redo && spec.Body == BodySeekCloser && !spec.ViaClient {
		// once the first call is over the same request object is executed again: its seekable body is replayed from the start
		defer func() {
			w.log.add(Event{Kind: EvAdapter, L: AdRedo})
			if r2, _ := call(); r2 != nil && r2.Body != nil {
				io.Copy(io.Discard, r2.Body)
				r2.Body.Close()
			}
		}()
	}
	e := Event{Kind: EvAdapter, L: AdReturn, Err: err, A: -1}
	if resp != nil {
		e.A = int64(resp.StatusCode)
		if a, cerr := strconv.Atoi(resp.Header.Get("X-Attempt")); cerr == nil {
			e.B = int64(a)
		}
	}
	w.log.add(e)
	if resp != nil && resp.Body != nil {
		got, rerr := io.ReadAll(resp.Body)
		want := -1
		if sb, ok := resp.Body.(*simBody); ok {
			want = len(sb.data)
		}
		w.log.add(Event{Kind: EvAdapter, L: AdBodyRead, A: int64(len(got)), B: int64(want), Err: rerr})
		resp.Body.Close()
	}
}

// ---- gRPC ---------------------------------------------------------------------

type grpcReq struct{ ID int }
type grpcReply struct{ N int }

func (w *adapterWorld) grpcErr(st ServerStep) error { return scriptedGRPCErr(st) }

func scriptedGRPCErr(st ServerStep) error {
	if st.PlainErr {
		return errC
	}
	if st.Code == 0 {
		return nil
	}
	if st.Wrapped {
		return fmt.Errorf("annotated: %w", status.Error(codes.Code(st.Code), "scripted"))
	}
	return status.Error(codes.Code(st.Code), "scripted")
}

func (w *adapterWorld) runGRPC() {
	spec := w.spec
	w.setupContexts()
	pols := adapterPolicies[any](spec, failsafegrpc.RetryPolicyBuilder[any])
	ex := failsafe.NewExecutor[any](pols...)
	if w.execCtx != nil {
		ex = ex.WithContext(w.execCtx)
	}
	req := &grpcReq{ID: 7}
	switch spec.Proto {
	case "grpc-client":
		reply := &grpcReply{}
		opt := grpc.WaitForReady(true)
		invoker := func(ctx context.Context, method string, r, rep any, cc *grpc.ClientConn, opts ...grpc.CallOption) error {
			simrt.Yield("grpc.invoker")
			n := w.nextAttempt()
			var prob int64
			if method != "/svc/Method" || r != any(req) || rep != any(reply) || cc != nil || len(opts) != 1 {
				prob |= PArgs
			}
			prob |= w.checkAttemptCtx(ctx)
			w.log.add(Event{Kind: EvAdapter, L: AdAttempt, A: int64(n), B: prob})
			st := w.step(n)
			if st.Delay > 0 {
				if waitOrCancel(st.Delay, ctx.Done(), "grpc.server") {
					err := status.FromContextError(ctx.Err()).Err()
					w.log.add(Event{Kind: EvAdapter, L: AdAttemptEnd, A: int64(n), Err: err})
					return err
				}
			}
			err := w.grpcErr(st)
			if err == nil {
				rep.(*grpcReply).N = n + 1
			}
			w.log.add(Event{Kind: EvAdapter, L: AdAttemptEnd, A: int64(n), Err: err, B: int64(st.Code)})
			return err
		}
		ic := failsafegrpc.NewUnaryClientInterceptorWithExecutor[any](ex)
		if spec.ViaPolicies && w.execCtx == nil {
			ic = failsafegrpc.NewUnaryClientInterceptor[any](pols...)
		}
		err := ic(w.reqCtx, "/svc/Method", req, reply, nil, invoker, opt)
		w.log.add(Event{Kind: EvAdapter, L: AdReturn, Err: err, A: int64(reply.N)})
	case "grpc-server":
		info := &grpc.UnaryServerInfo{FullMethod: "/svc/Method"}
		handler := func(ctx context.Context, r any) (any, error) {
			simrt.Yield("grpc.handler")
			n := w.nextAttempt()
			var prob int64
			if r != any(req) {
				prob |= PArgs
			}
			prob |= w.checkAttemptCtx(ctx)
			w.log.add(Event{Kind: EvAdapter, L: AdAttempt, A: int64(n), B: prob})
			st := w.step(n)
			if st.Delay > 0 {
				if waitOrCancel(st.Delay, ctx.Done(), "grpc.server") {
					err := status.FromContextError(ctx.Err()).Err()
					w.log.add(Event{Kind: EvAdapter, L: AdAttemptEnd, A: int64(n), Err: err})
					return nil, err
				}
			}
			err := w.grpcErr(st)
			w.log.add(Event{Kind: EvAdapter, L: AdAttemptEnd, A: int64(n), Err: err, B: int64(st.Code)})
			if err != nil {
				return nil, err
			}
			return &grpcReply{N: n + 1}, nil
		}
		ic := failsafegrpc.NewUnaryServerInterceptorWithExecutor[any](ex)
		if spec.ViaPolicies && w.execCtx == nil {
			ic = failsafegrpc.NewUnaryServerInterceptor[any](pols...)
		}
		resp, err := ic(w.reqCtx, req, info, handler)
		e := Event{Kind: EvAdapter, L: AdReturn, Err: err}
		if rp, ok := resp.(*grpcReply); ok && rp != nil {
			e.A = int64(rp.N)
		}
		w.log.add(e)
	case "grpc-tap":
		th := failsafegrpc.NewServerInHandleWithExecutor[any](ex)
		if spec.ViaPolicies && w.execCtx == nil {
			th = failsafegrpc.NewServerInHandle[any](pols...)
		}
		ctx, err := th(w.reqCtx, &tap.Info{FullMethodName: "/svc/Method"})
		e := Event{Kind: EvAdapter, L: AdReturn, Err: err}
		if ctx != w.reqCtx {
			e.B = PArgs
		}
		w.log.add(e)
	}
}

func runAdapter(w *adapterWorld) {
	n := w.spec.Repeat
	if n <= 0 {
		n = 1
	}
	for i := 0; i < n; i++ {
		if w.spec.Proto == "http" {
			w.runHTTP()
		} else {
			w.runGRPC()
		}
	}
}

var _ = errors.New
var _ = url.Parse
