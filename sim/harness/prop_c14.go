package harness

import (
	"fmt"
	"os"
	"regexp"
	"strings"
	"time"

	"dsim/simrt"
)

func init() {
	register(&PropDef{ID: "C14", Stalls: true, Level: "exploration", Gen: genC14, Check: checkC14, Race: true})
}

// genC14: shared policy instances, 3-5 (thorough 8) concurrent sync/async
// executions through one or two stacks, plus standalone callers.
func genC14(r *Rnd, t Tier) *Case {
	unit := ms
	// a share of the runs reuses the concurrent scenario families of the other properties under the race detector
	if r.P(0.3) {
		var c *Case
		switch r.Intn(10) {
		case 6:
			c = genC18(r, t)
		case 7:
			c = genC01(r, t)
		case 8:
			c = genC11(r, t)
		case 9:
			c = genC05(r, t)
		case 0:
			c = genC04(r, t)
		case 1:
			c = genC06(r, t)
		case 2:
			c = genC08(r, t)
		case 3:
			c = genC09(r, t)
		case 4:
			c = genC15(r, t)
		default:
			c = genC16(r, t)
		}
		// fire injected cancellations at a generated instant instead of sweeping
		for ci := range c.Sc.Clients {
			for oi := range c.Sc.Clients[ci].Ops {
				op := &c.Sc.Clients[ci].Ops[oi]
				if op.CancelStep != 0 {
					op.CancelStep = 0
					op.CancelAt = time.Duration(r.Range(0, 30)) * unit
				}
				op.ProbeStep = 0
			}
		}
		c.Sweep = false
		return c
	}
	sc := &Scenario{Family: "c14"}
	np := r.Range(2, 4)
	if t.Thorough {
		np = r.Range(2, 6)
	}
	hedges := 0
	for i := 0; i < np; i++ {
		k := pick(r, allKinds...)
		if k == KHedge {
			hedges++
			if hedges > 1 {
				k = KRetry
			}
		}
		sc.Policies = append(sc.Policies, genPolicy(r, k, unit))
	}
	nst := r.Range(1, 2)
	for s := 0; s < nst; s++ {
		idx := make([]int, np)
		for i := range idx {
			idx[i] = i
		}
		shuffle(r, idx)
		sc.Stacks = append(sc.Stacks, idx[:r.Range(1, np)])
	}
	nc := r.Range(3, 5)
	if t.Thorough {
		nc = r.Range(3, 8)
	}
	for ci := 0; ci < nc; ci++ {
		var ops []Op
		for i, n := 0, r.Range(1, 2); i < n; i++ {
			s := genScript(r, unit, r.Range(1, 4), pick(r, 0.3, 0.7))
			sc.Scripts = append(sc.Scripts, s)
			ops = append(ops, Op{Kind: "exec", Stack: r.Intn(nst), Script: len(sc.Scripts) - 1, Entry: r.Intn(8), Ctx: pick(r, CtxNone, CtxBackground, CtxValue)})
			if r.P(0.3) {
				ops = append(ops, Op{Kind: "sleep", Dur: time.Duration(r.Range(0, 20)) * unit})
			}
		}
		sc.Clients = append(sc.Clients, Client{Ops: ops})
	}
	// standalone callers on the shared instances
	var ops []Op
	for pi, p := range sc.Policies {
		switch p.Kind {
		case KBreaker:
			ops = append(ops, Op{Kind: pick(r, "br.try", "br.success", "br.failure", "br.observe", "br.open", "br.close"), Pol: pi})
			ops = append(ops, Op{Kind: "br.observe", Pol: pi})
		case KLimiter:
			ops = append(ops, Op{Kind: pick(r, "rl.try", "rl.reserve", "rl.tryreserve"), Pol: pi, N: 1, Dur: time.Duration(r.Range(0, 10)) * unit})
		case KBulkhead:
			ops = append(ops, Op{Kind: "bh.try", Pol: pi}, Op{Kind: "sleep", Dur: time.Duration(r.Range(0, 5)) * unit}, Op{Kind: "bh.release", Pol: pi})
		}
	}
	if len(ops) > 0 {
		sc.Clients = append(sc.Clients, Client{Ops: ops})
	}
	// several goroutines reading the metrics of a shared breaker at once
	for pi, p := range sc.Policies {
		if p.Kind == KBreaker {
			for k := 0; k < 2; k++ {
				var obs []Op
				for i, n := 0, r.Range(2, 4); i < n; i++ {
					obs = append(obs, Op{Kind: "br.observe", Pol: pi})
					if r.P(0.5) {
						obs = append(obs, Op{Kind: "sleep", Dur: time.Duration(r.Range(0, 25)) * unit})
					}
				}
				sc.Clients = append(sc.Clients, Client{Ops: obs})
			}
			break
		}
	}
	terminating(sc)
	return &Case{Sc: sc}
}

// lastRaceReport reads the newest report from this process's race log.
func lastRaceReport() (text, sig string) {
	path := os.Getenv("DSIM_RACE_LOG")
	if path == "" {
		return "", ""
	}
	b, err := os.ReadFile(fmt.Sprintf("%s.%d", path, os.Getpid()))
	if err != nil {
		return "", ""
	}
	parts := strings.Split(string(b), "==================")
	for i := len(parts) - 1; i >= 0; i-- {
		if strings.Contains(parts[i], "DATA RACE") {
			text = strings.TrimSpace(parts[i])
			break
		}
	}
	if text == "" {
		return "", ""
	}
	// signature: the first library frame of each of the two accesses
	var fr []string
	typeArgs := regexp.MustCompile(`\[[^\]]*\]`)
	for _, blk := range strings.Split(strings.TrimPrefix(text, "WARNING: DATA RACE\n"), "\n\n") {
		head := strings.SplitN(blk, "\n", 2)[0]
		if !(strings.Contains(head, "rite at") || strings.Contains(head, "ead at")) {
			continue
		}
		for _, ln := range strings.Split(blk, "\n")[1:] {
			if !strings.HasPrefix(ln, "  ") || strings.HasPrefix(ln, "      ") {
				continue
			}
			f := strings.TrimSpace(ln)
			if !strings.Contains(f, "failsafe-go/failsafe-go") {
				continue
			}
			f = typeArgs.ReplaceAllString(f, "")
			f = strings.TrimSuffix(f, "()")
			f = f[strings.Index(f, "failsafe-go/failsafe-go")+len("failsafe-go/failsafe-go"):]
			fr = append(fr, strings.TrimPrefix(f, "/"))
			break
		}
	}
	if len(fr) > 2 {
		fr = fr[:2]
	}
	// order-independent
	if len(fr) == 2 && fr[1] < fr[0] {
		fr[0], fr[1] = fr[1], fr[0]
	}
	return text, strings.Join(fr, " | ")
}

var raceSeen = 0

func checkC14(c *checkCtx) {
	if c.Res.Out.TaskOverflow {
		return
	}
	// (a) race detector reports under the deterministic schedule
	if n := simrt.RaceErrors(); n > raceSeen {
		raceSeen = n
		text, sig := lastRaceReport()
		if len(text) > 6000 {
			text = text[:6000]
		}
		c.fail("C14.race", sig, "data race reported by the Go race detector under the simulated schedule:\n"+text)
		return
	}
	// (b) deadlock / livelock / (c) panics
	if !checkProgress(c, "C14.") {
		return
	}
	c.cov("c14.concurrent_runs")
	// (d) "every property above continues to hold for each individual execution": decided by the concurrent
	// scenario families of the other properties' own checks (C02, C04, C06, C08, C09, C15, C16 run several
	// clients through shared instances); a differential here cannot attribute a failure precisely.
}
