package harness

// installInvariants registers the oracles that are evaluated on every event
// while the run proceeds (DESIGN §4.2).
func installInvariants(w *World, log *Log) {
}
