package harness

import (
	"time"
)

func init() {
	register(&PropDef{ID: "C01", Level: "exploration", Gen: genC01, Check: checkC01})
	register(&PropDef{ID: "C02", Stalls: true, Level: "exploration", Gen: genC02, Check: checkC02})
	register(&PropDef{ID: "C10", Level: "exploration", Gen: genC10, Check: checkC10})
	register(&PropDef{ID: "C11", Level: "exploration", Gen: genC11, Check: checkC11})
}

func genPolicy(r *Rnd, kind string, unit time.Duration) PolicySpec {
	switch kind {
	case KRetry:
		return genRetry(r, unit)
	case KBreaker:
		return genBreaker(r, unit)
	case KLimiter:
		return genLimiter(r, unit)
	case KBulkhead:
		return genBulkhead(r, unit)
	case KTimeout:
		return genTimeout(r, unit)
	case KHedge:
		return genHedge(r, unit)
	case KFallback:
		return genFallback(r, unit)
	default:
		return genCache(r)
	}
}

var allKinds = []string{KRetry, KBreaker, KLimiter, KBulkhead, KTimeout, KHedge, KFallback, KCache}

// terminating makes sure an execution through the stack ends: an unlimited
// retry keeps its unlimited budget only when nothing but retries sits inside
// it, and then every script ends with an outcome nobody handles.
func terminating(sc *Scenario) {
	unl := false
	for _, st := range sc.Stacks {
		for pos, pi := range st {
			p := &sc.Policies[pi]
			if p.Kind != KRetry || p.MaxRetries != -1 {
				continue
			}
			for _, qi := range st[pos+1:] {
				if sc.Policies[qi].Kind != KRetry {
					p.MaxRetries = 4
				}
			}
			if p.MaxRetries == -1 {
				unl = true
			}
		}
	}
	boundAttempts(sc)
	if !unl {
		return
	}
	for i := range sc.Scripts {
		s := &sc.Scripts[i]
		if len(s.Outcomes) > 6 {
			s.Outcomes = s.Outcomes[:6]
		}
		s.Outcomes = append(s.Outcomes, Outcome{Result: 4})
	}
}

// maxInvocations bounds the function invocations one execution through a stack
// can make (the product of the attempts every retry and hedge layer allows), so
// that a run stays far below the scheduler's step and task caps and hitting
// those caps keeps meaning "the code under test does not terminate". The bound
// is on the sum over the executions of a scenario.
const maxInvocations = 320

func invocationBound(sc *Scenario, st []int) int {
	n := 1
	for _, pi := range st {
		p := &sc.Policies[pi]
		switch p.Kind {
		case KRetry:
			r := p.MaxRetries
			if r < 0 {
				r = 7 // unlimited: ends with the script (terminating)
			}
			n *= r + 1
		case KHedge:
			n *= p.MaxHedges + 1
		}
		if n > 1<<20 {
			return n
		}
	}
	return n
}

func boundAttempts(sc *Scenario) {
	total := func() int {
		n := 0
		for _, c := range sc.Clients {
			for _, op := range c.Ops {
				if op.Kind == "exec" && op.Stack < len(sc.Stacks) {
					n += invocationBound(sc, sc.Stacks[op.Stack])
				}
			}
		}
		for _, st := range sc.Stacks {
			if b := invocationBound(sc, st); b > n {
				n = b // scenarios whose clients are filled in later
			}
		}
		return n
	}
	for total() > maxInvocations {
		// lower the largest budget by one
		best := -1
		for pi := range sc.Policies {
			if v := budgetOf(&sc.Policies[pi]); v > 0 && (best < 0 || v > budgetOf(&sc.Policies[best])) {
				best = pi
			}
		}
		if best < 0 {
			break
		}
		p := &sc.Policies[best]
		if p.Kind == KRetry {
			p.MaxRetries--
		} else {
			p.MaxHedges--
		}
	}
}

func budgetOf(p *PolicySpec) int {
	switch p.Kind {
	case KRetry:
		return p.MaxRetries
	case KHedge:
		return p.MaxHedges
	}
	return 0
}

// terminates is the generic premise every generated scenario satisfies;
// shrinking stays inside it.
func terminates(sc *Scenario) bool {
	for _, st := range sc.Stacks {
		for pos, pi := range st {
			p := &sc.Policies[pi]
			if p.Kind != KRetry || p.MaxRetries != -1 {
				continue
			}
			for _, qi := range st[pos+1:] {
				if sc.Policies[qi].Kind != KRetry {
					return false
				}
			}
			for _, s := range sc.Scripts {
				if len(s.Outcomes) == 0 {
					return false
				}
				if o := s.Outcomes[len(s.Outcomes)-1]; o.Err != ENil || o.Result != 4 {
					return false
				}
			}
		}
	}
	return true
}

// genC01: random compositions, histories of executions on shared stateful instances.
// genC01GateWait is the directed shape "a waiting gate below a canceller":
// a timeout over a retry over a gate that refuses early attempts, a layer that
// copies the execution, and a gate whose permit is taken so that a later
// attempt waits there until the outer timeout cancels it.
func genC01GateWait(r *Rnd, t Tier) *Case {
	unit := ms
	sc := &Scenario{Family: "c01"}
	outer := PolicySpec{Kind: KTimeout, Limit: time.Duration(r.Range(4, 30)) * unit}
	rp := PolicySpec{Kind: KRetry, MaxRetries: r.Range(1, 3), DelayKind: DelayFixed, Delay: time.Duration(r.Range(1, 6)) * unit}
	first := PolicySpec{Kind: KLimiter, Smooth: true, Interval: time.Duration(r.Range(3, 12)) * unit}
	var layer PolicySpec
	if r.Bool() {
		layer = PolicySpec{Kind: KTimeout, Limit: time.Duration(r.Range(200, 400)) * unit}
	} else {
		layer = PolicySpec{Kind: KHedge, MaxHedges: 1, Delay: time.Duration(r.Range(200, 400)) * unit}
	}
	var waiting PolicySpec
	if r.P(0.7) {
		waiting = PolicySpec{Kind: KLimiter, MaxExec: 1, Period: time.Duration(r.Range(30, 80)) * unit, MaxWait: 1000 * unit}
		if r.Bool() {
			waiting = PolicySpec{Kind: KLimiter, Smooth: true, Interval: time.Duration(r.Range(30, 80)) * unit, MaxWait: 1000 * unit}
		}
	} else {
		waiting = PolicySpec{Kind: KBulkhead, MaxConc: 1, MaxWait: 1000 * unit}
	}
	sc.Policies = []PolicySpec{outer, rp, first, layer, waiting}
	stack := []int{0, 1, 2, 3, 4}
	if r.P(0.3) {
		stack = []int{0, 1, 3, 4} // the previous attempt fails in the function instead
	}
	sc.Stacks = [][]int{stack}
	var ops []Op
	if waiting.Kind == KBulkhead {
		ops = append(ops, Op{Kind: "bh.try", Pol: 4})
	}
	ne := r.Range(2, 3)
	for i := 0; i < ne; i++ {
		sc.Scripts = append(sc.Scripts, genScript(r, unit, r.Range(1, 3), pick(r, 0.0, 0.5)))
		ops = append(ops, Op{Kind: "exec", Script: i, Entry: r.Intn(8), Ctx: pick(r, CtxNone, CtxBackground)})
		if r.P(0.3) {
			ops = append(ops, Op{Kind: "sleep", Dur: time.Duration(r.Range(1, 10)) * unit})
		}
	}
	sc.Clients = []Client{{Ops: ops}}
	terminating(sc)
	return &Case{Sc: sc}
}

func genC01(r *Rnd, t Tier) *Case {
	if r.P(0.04) {
		return genC01GateWait(r, t)
	}
	unit := ms
	sc := &Scenario{Family: "c01"}
	maxP, maxE := 4, 3
	if t.Thorough {
		maxP, maxE = 7, 6
	}
	n := r.Range(1, maxP)
	var stack []int
	hedges := 0
	for i := 0; i < n; i++ {
		if len(sc.Policies) > 0 && r.P(0.12) {
			k := r.Intn(len(sc.Policies))
			if sc.Policies[k].Kind == KHedge {
				hedges++
			}
			if hedges <= 2 {
				stack = append(stack, k) // repetition of an instance
				continue
			}
		}
		kind := pick(r, allKinds...)
		if kind == KHedge {
			hedges++
			if hedges > 2 {
				kind = KRetry // more than two nested hedges multiply attempts beyond what a run should hold
			}
		}
		sc.Policies = append(sc.Policies, genPolicy(r, kind, unit))
		stack = append(stack, len(sc.Policies)-1)
	}
	sc.Stacks = [][]int{stack}
	ne := r.Range(1, maxE)
	var ops []Op
	for i := 0; i < ne; i++ {
		sc.Scripts = append(sc.Scripts, genScript(r, unit, r.Range(1, 5), pick(r, 0.2, 0.5, 0.8)))
		op := Op{Kind: "exec", Script: i, Entry: r.Intn(8), Ctx: pick(r, CtxNone, CtxBackground, CtxValue, CtxCancel)}
		if op.Ctx == CtxValue && r.P(0.5) {
			op.CtxKey = pick(r, "k1", "k2", KeyEmpty)
		}
		ops = append(ops, op)
		if r.P(0.4) {
			ops = append(ops, Op{Kind: "sleep", Dur: time.Duration(r.Range(1, 60)) * unit})
		}
	}
	// hold permits of a bulkhead in the stack through the standalone API for part of the history
	for pi, p := range sc.Policies {
		if p.Kind == KBulkhead && r.P(0.5) {
			var withHold []Op
			held := 0
			for _, op := range ops {
				if op.Kind == "exec" && r.P(0.5) {
					if held > 0 && r.P(0.5) {
						withHold = append(withHold, Op{Kind: "bh.release", Pol: pi})
						held--
					} else if held < int(p.MaxConc) {
						withHold = append(withHold, Op{Kind: "bh.try", Pol: pi})
						held++
					}
				}
				withHold = append(withHold, op)
			}
			ops = withHold
			break
		}
	}
	sc.Clients = []Client{{Ops: ops}}
	terminating(sc)
	return &Case{Sc: sc}
}

func checkProgress(c *checkCtx, prefix string) bool {
	o := c.Res.Out
	if o.TaskOverflow {
		c.cov("scenario_abandoned_task_overflow")
		return false
	}
	if o.Stalled || o.Deadlock || o.Livelock {
		c.fail(prefix+"progress", "stall", "the run did not finish: stalled="+boolStr(o.Stalled)+" deadlock="+boolStr(o.Deadlock)+" livelock="+boolStr(o.Livelock))
		return false
	}
	for _, p := range c.Res.Panics {
		c.fail(prefix+"panic", "panic", "a task panicked: "+p)
		return false
	}
	return true
}

func boolStr(b bool) string {
	if b {
		return "true"
	}
	return "false"
}

func checkC01(c *checkCtx) {
	if !checkProgress(c, "C01.") {
		return
	}
	checkModels(c, "M.")
	checkGating(c, "C01.")
	checkGateState(c, "C01.")
}

// checkGating: the function runs only inside an innermost probe call, i.e.
// only when every enclosing policy admitted the attempt, and the number of
// invocations equals the number of innermost calls.
func checkGating(c *checkCtx, prefix string) {
	for _, v := range c.Views {
		if c.Res.Sc.NoProbes || v.Root == nil {
			continue
		}
		inner := 0
		for _, n := range v.Nodes {
			if n.Pos == len(v.Stack) {
				inner++
				if n.FnStart == nil {
					c.fail(prefix+"gating", "no-fn", "an attempt was admitted by every policy but the function was not invoked")
				}
			}
		}
		if inner != len(v.FnStarts) {
			c.fail(prefix+"gating", "count", "function invocations and admitted attempts differ")
		}
	}
}

// ---- C02 ----

func genC02(r *Rnd, t Tier) *Case {
	unit := ms
	sc := &Scenario{Family: "c02"}
	rp := genRetry(r, unit)
	rp.MaxRetries = pick(r, 0, 1, 2, 3, 7, -1, 1, 2)
	// durations relative to max duration
	if r.P(0.3) {
		rp.MaxDuration = time.Duration(r.Range(5, 40)) * unit
	} else {
		rp.MaxDuration = 0
	}
	sc.Policies = []PolicySpec{rp}
	stack := []int{0}
	if r.P(0.2) {
		// nested retry in retry
		inner := genRetry(r, unit)
		inner.MaxRetries = pick(r, 0, 1, 2)
		sc.Policies = append(sc.Policies, inner)
		stack = append(stack, 1)
	}
	if r.P(0.15) {
		sc.Policies = append(sc.Policies, genFallback(r, unit))
		stack = append([]int{len(sc.Policies) - 1}, stack...)
	}
	sc.Stacks = [][]int{stack}
	nc := pick(r, 1, 1, 2, 3)
	if t.Thorough {
		nc = r.Range(1, 6)
	}
	for ci := 0; ci < nc; ci++ {
		var ops []Op
		for i, ne := 0, r.Range(1, 2); i < ne; i++ {
			s := genScript(r, unit, r.Range(1, 9), pick(r, 0.5, 0.8, 0.95))
			if r.P(0.3) {
				// alternate failure / non-failure
				for j := range s.Outcomes {
					if j%2 == 1 {
						s.Outcomes[j].Err = ENil
					}
				}
			}
			sc.Scripts = append(sc.Scripts, s)
			ops = append(ops, Op{Kind: "exec", Script: len(sc.Scripts) - 1, Entry: r.Intn(8), Ctx: pick(r, CtxNone, CtxBackground)})
		}
		sc.Clients = append(sc.Clients, Client{Ops: ops})
	}
	terminating(sc)
	return &Case{Sc: sc}
}

func checkC02(c *checkCtx) {
	if !checkProgress(c, "C02.") {
		return
	}
	checkModels(c, "M.", "retry.")
	checkGating(c, "C02.")
	// budget isolation is implied: every execution's trace conforms independently
	if len(c.Views) > 1 {
		c.cov("c02.concurrent_or_successive_sharing")
	}
}

// ---- C10 ----

func genC10(r *Rnd, t Tier) *Case {
	unit := ms
	sc := &Scenario{Family: "c10"}
	fb := genFallback(r, unit)
	if r.P(0.6) {
		fb.Handle = genCond(r, true)
	}
	sc.Policies = []PolicySpec{fb}
	stack := []int{0}
	// inner composition producing the various outcome kinds
	inner := pick(r, "", KRetry, KBreaker, KBulkhead, KLimiter, KTimeout, KRetry, KHedge)
	blocker := false
	switch inner {
	case KRetry:
		p := genRetry(r, unit)
		p.MaxRetries = pick(r, 0, 1, 2)
		sc.Policies = append(sc.Policies, p)
	case KBreaker:
		p := genBreaker(r, unit)
		p.BrKind, p.FailThr = 0, 1
		p.Delay = 1000 * unit
		sc.Policies = append(sc.Policies, p)
	case KBulkhead:
		sc.Policies = append(sc.Policies, PolicySpec{Kind: KBulkhead, MaxConc: 1})
		blocker = true
	case KLimiter:
		sc.Policies = append(sc.Policies, PolicySpec{Kind: KLimiter, Smooth: true, Interval: 50 * unit})
	case KTimeout:
		sc.Policies = append(sc.Policies, PolicySpec{Kind: KTimeout, Limit: time.Duration(r.Range(3, 10)) * unit})
	case KHedge:
		sc.Policies = append(sc.Policies, genHedge(r, unit))
	}
	if inner != "" {
		stack = append(stack, 1)
	}
	if r.P(0.2) {
		// an outer policy to see the verdict propagate
		sc.Policies = append(sc.Policies, genRetry(r, unit))
		stack = append([]int{len(sc.Policies) - 1}, stack...)
	}
	sc.Stacks = [][]int{stack}
	var ops []Op
	for i, ne := 0, r.Range(1, 3); i < ne; i++ {
		sc.Scripts = append(sc.Scripts, genScript(r, unit, r.Range(1, 4), pick(r, 0.3, 0.7, 1.0)))
		op := Op{Kind: "exec", Script: i, Entry: r.Intn(8), Ctx: pick(r, CtxNone, CtxBackground)}
		if r.P(0.2) {
			// the caller cancels while the function runs; the function may still return its outcome, which the
			// fallback handles or passes through like any other
			s := &sc.Scripts[i]
			for j := range s.Outcomes {
				s.Outcomes[j].Dur = time.Duration(r.Range(1, 12)) * unit
				s.Outcomes[j].Coop = pick(r, CoopResult, CoopResult, CoopIgnore, CoopReturn)
			}
			op.Ctx = CtxCancel
			op.CancelSrc = SrcCtxCancel
			op.CancelAt = time.Duration(r.Range(0, 15)) * unit
		}
		ops = append(ops, op)
	}
	sc.Clients = []Client{{Ops: ops}}
	if blocker {
		sc.Stacks = append(sc.Stacks, []int{1})
		sc.Scripts = append(sc.Scripts, Script{Outcomes: []Outcome{{Dur: 30 * unit, Coop: CoopIgnore}}})
		sc.Clients = append([]Client{{Ops: []Op{{Kind: "exec", Stack: 1, Script: len(sc.Scripts) - 1, Entry: EnGet}}}}, sc.Clients...)
	}
	terminating(sc)
	return &Case{Sc: sc}
}

func checkC10(c *checkCtx) {
	if !checkProgress(c, "C10.") {
		return
	}
	// the verdict is the fallback's own classification of its output when the outermost fallback was applied
	checkModels(c, "M.", "fallback.", "verdict.fallback-output")
}

// ---- C11 ----

func genC11(r *Rnd, t Tier) *Case {
	unit := ms
	sc := &Scenario{Family: "c11"}
	cp := genCache(r)
	sc.Policies = []PolicySpec{cp}
	stack := []int{0}
	for i, n := 0, r.Range(0, 2); i < n; i++ {
		sc.Policies = append(sc.Policies, genPolicy(r, pick(r, KRetry, KBreaker, KBulkhead, KLimiter, KFallback, KTimeout), unit))
		stack = append(stack, len(sc.Policies)-1)
	}
	if r.P(0.25) {
		sc.Policies = append(sc.Policies, genPolicy(r, pick(r, KRetry, KFallback), unit))
		stack = append([]int{len(sc.Policies) - 1}, stack...)
	}
	sc.Stacks = [][]int{stack}
	max := 6
	if t.Thorough {
		max = 10
	}
	var ops []Op
	for i, ne := 0, r.Range(2, max); i < ne; i++ {
		sc.Scripts = append(sc.Scripts, genScript(r, unit, r.Range(1, 3), pick(r, 0.0, 0.3, 0.6)))
		op := Op{Kind: "exec", Script: i, Entry: pick(r, EnGet, EnGetExec, EnGetAsync, EnGetExecAsync, EnRun), Ctx: pick(r, CtxNone, CtxBackground, CtxValue, CtxValue)}
		if op.Ctx == CtxValue {
			op.CtxKey = pick(r, "", "k1", "k2", "k3", KeyEmpty, KeyNonString)
		}
		if r.P(0.08) {
			// a caller that has already given up (or gives up at once): a hit is still a hit, a miss still returns
			// and stores what the inside produced
			if op.Ctx == CtxValue {
				op.Ctx = CtxCancelValue
			} else {
				op.Ctx = CtxCancel
			}
			op.CancelSrc = SrcCtxCancel
			op.CancelAt = time.Duration(r.Range(0, 2)) * unit
		}
		ops = append(ops, op)
	}
	sc.Clients = []Client{{Ops: ops}}
	terminating(sc)
	return &Case{Sc: sc}
}

func checkC11(c *checkCtx) {
	if !checkProgress(c, "C11.") {
		return
	}
	checkModels(c, "M.", "cache.")
	checkGating(c, "C11.")
}
