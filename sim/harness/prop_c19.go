package harness

import (
	"fmt"
	"time"

	"dsim/simrt"
)

func init() {
	register(&PropDef{ID: "C19", Level: "fault_enumeration", Gen: genC19, Check: checkC19, Valid: func(sc *Scenario) bool {
		if sc.Family == "c08" {
			return validC08(sc)
		}
		return true
	}})
}

// genC19 draws from the scenario families of the other properties (every
// outcome: success, failure, rejection, timeout, cancellation at every step)
// and, for the growth oracle, repeats an execution many times.
func genC19(r *Rnd, t Tier) *Case {
	switch r.Intn(13) {
	case 10, 11, 12:
		c := genC18(r, t)
		c.Sc.Family = "c19adapter"
		if r.P(0.3) {
			c.Sc.Adapter.Repeat = 20
			c.Sc.Adapter.CancelAt = 0
		}
		return c
	case 0, 1, 2:
		c := genC08(r, t)
		return c
	case 3:
		return genC07(r, t)
	case 4:
		return genC09(r, t)
	case 5:
		c := genC06(r, t)
		return c
	case 6:
		c := genC15(r, t)
		return c
	case 7:
		// repetition: the same execution 50 times
		c := genC01(r, Tier{})
		sc := c.Sc
		var ops []Op
		var first *Op
		for i := range sc.Clients[0].Ops {
			if sc.Clients[0].Ops[i].Kind == "exec" {
				first = &sc.Clients[0].Ops[i]
				break
			}
		}
		for i := 0; i < 50; i++ {
			ops = append(ops, *first)
		}
		sc.Clients[0].Ops = ops
		sc.Family = "c19rep"
		return c
	default:
		return genC01(r, t)
	}
}

func checkC19(c *checkCtx) {
	res := c.Res
	if res.Out.TaskOverflow {
		return
	}
	if res.Out.Stalled || res.Out.Deadlock || res.Out.Livelock {
		// progress problems belong to the property whose family this is; leaks are judged only on runs whose clients finished
		c.cov("c19.run_did_not_finish")
		return
	}
	c.cov("c19.runs_checked")
	// (a) every goroutine the library started has exited after quiescence and the grace period
	for _, t := range res.Survivors {
		if t.Kind == simrt.KindClient {
			continue
		}
		kind := "goroutine"
		if t.Kind == simrt.KindTimer {
			kind = "timer callback"
		}
		c.fail("C19.goroutine", t.CreateSite, fmt.Sprintf("a %s started by the library at %s is still alive one hour (fake) after every execution finished; it last stopped at %s", kind, t.CreateSite, t.Site))
	}
	// (b) no timer is left armed once nobody can be waiting for it
	for _, tr := range res.Timers {
		if tr.PendingAtQuiescence {
			c.fail("C19.timer", tr.Site, fmt.Sprintf("a %s of %v created by task %d was still armed (%v left) when every goroutine of the run had finished: it was neither stopped nor did it fire", tr.Site, tr.D, tr.Task, tr.Remaining))
			break
		}
	}
	// (c) the bubble must be empty when the run ends
	if res.BubblePanic != "" && len(res.Survivors) == 0 {
		c.fail("C19.bubble", "blocked-goroutines", "goroutines outside the task registry remained blocked when the simulation ended: "+firstLine(res.BubblePanic))
	}
	// (d) library goroutines end shortly after the execution they belong to
	if !res.Out.Quiescent.IsZero() {
		late := res.Out.Quiescent.Sub(res.Out.ClientsEnd)
		var userTail time.Duration
		for i := range res.Log.Ev {
			e := &res.Log.Ev[i]
			if e.Kind == EvFnEnd || e.Kind == EvFallbackFnEnd {
				if d := e.T - res.Out.ClientsEnd.Sub(res.Start); d > userTail {
					userTail = d
				}
			}
		}
		if late > userTail {
			// where did the last library goroutine to finish wait?
			where := "?"
			var lastExit time.Time
			for _, t := range res.Tasks {
				if t.Kind != simrt.KindClient && t.State == simrt.StExited && t.ExitTime.After(lastExit) {
					lastExit = t.ExitTime
					where = t.LastBlock
				}
			}
			if i := indexByte(where, ':'); i >= 0 {
				where = where[:i]
			}
			c.fail("C19.lingering", "waited-in:"+where, fmt.Sprintf("library goroutines kept running until %v after the last execution returned although user code ran for only %v of that time", late, userTail))
		}
	}
	// (e) HTTP: responses the adapter obtained but did not hand to the caller are closed
	if a := res.Sc.Adapter; a != nil && a.Proto == "http" && res.AW != nil {
		c.cov("c19.http_runs")
		returned := map[int]bool{}
		for i := range res.Log.Ev {
			e := &res.Log.Ev[i]
			if e.Kind == EvAdapter && e.L == AdReturn && e.A >= 0 {
				returned[int(e.B)] = true
			}
		}
		for _, b := range res.AW.bodies {
			if !returned[b.attempt] {
				c.cov("c19.http_discarded_responses")
				if b.closed == 0 {
					why := "retried"
					for _, p := range a.Policies {
						if p.Kind == "hedge" {
							why = "retried or losing"
						}
					}
					c.fail("C19.http-body", "unclosed", fmt.Sprintf("the response of attempt %d (%s, not returned to the caller) was never closed: its connection is not released", b.attempt, why))
					break
				}
			}
		}
	}
	if res.Sc.Family == "c19rep" || (res.Sc.Adapter != nil && res.Sc.Adapter.Repeat > 1) {
		c.cov("c19.repetition_runs")
	}
}

func indexByte(s string, b byte) int {
	for i := 0; i < len(s); i++ {
		if s[i] == b {
			return i
		}
	}
	return -1
}

func firstLine(s string) string {
	for i := 0; i < len(s); i++ {
		if s[i] == '\n' {
			return s[:i]
		}
	}
	return s
}
