package harness

import (
	"fmt"
	"time"

	"dsim/simrt"
)

func init() {
	register(&PropDef{ID: "C19", Level: "fault_enumeration", Gen: genC19, Check: checkC19, Valid: func(sc *Scenario) bool {
		if sc.Family == "c08" {
			return validC08(sc)
		}
		return true
	}})
}

// genC19 draws from the scenario families of the other properties (every
// outcome: success, failure, rejection, timeout, cancellation at every step)
// and, for the growth oracle, repeats an execution many times.
// genC19Nested: per-attempt timeouts below hedges and retries, with attempts
// that outlive their limit - the shapes in which one attempt's timeout, the
// hedge's cancellation of the losers and the retries of a timed-out attempt
// meet. What is judged is only what C19 states: nothing keeps running.
func genC19Nested(r *Rnd, t Tier) *Case {
	unit := ms
	sc := &Scenario{Family: "c19nested"}
	L := time.Duration(r.Range(4, 20)) * unit
	to := PolicySpec{Kind: KTimeout, Limit: L}
	h := PolicySpec{Kind: KHedge, MaxHedges: r.Range(1, 2), Delay: time.Duration(r.Range(1, 25)) * unit}
	if r.P(0.3) {
		h.Cancel = genCond(r, false)
	}
	rp := PolicySpec{Kind: KRetry, MaxRetries: r.Range(1, 3), DelayKind: DelayFixed, Delay: time.Duration(r.Range(0, 8)) * unit}
	sc.Policies = []PolicySpec{h, rp, to, {Kind: KTimeout, Limit: time.Duration(r.Range(30, 80)) * unit}}
	sc.Stacks = [][]int{pick(r, []int{0, 1, 2}, []int{0, 2}, []int{1, 0, 2}, []int{3, 0, 2}, []int{0, 1, 2}, []int{3, 0, 1, 2})}
	var ops []Op
	for i, n := 0, r.Range(1, 3); i < n; i++ {
		var s Script
		for j, m := 0, r.Range(1, 5); j < m; j++ {
			o := genOutcome(r, unit, pick(r, 0.3, 0.8))
			o.Dur = pick(r, L/2, L-1, L, L+1, L*2, L*3, time.Duration(r.Range(0, 40))*unit)
			o.Coop = pick(r, CoopReturn, CoopReturn, CoopResult, CoopLate, CoopIgnore)
			if o.Coop == CoopLate {
				o.IgnoreFor = time.Duration(r.Range(1, 10)) * unit
			}
			s.Outcomes = append(s.Outcomes, o)
		}
		sc.Scripts = append(sc.Scripts, s)
		ops = append(ops, Op{Kind: "exec", Script: i, Entry: r.Intn(8), Ctx: pick(r, CtxNone, CtxBackground)})
	}
	if r.Bool() {
		// the second attempt wins while the first, timed out, sits in its retry delay
		sc.Stacks = [][]int{pick(r, []int{0, 1, 2}, []int{0, 1, 2}, []int{3, 0, 1, 2})}
		hp, rpp := &sc.Policies[0], &sc.Policies[1]
		hp.MaxHedges = 1
		hp.Delay = time.Duration(r.Range(1, int(L/unit))) * unit
		hp.Cancel = Cond{Preds: []int{POdd}}
		rpp.Delay = time.Duration(r.Range(3, 10)) * unit
		rpp.Handle, rpp.Abort = Cond{}, Cond{}
		win := L - hp.Delay + time.Duration(r.Range(0, int(rpp.Delay/unit)))*unit
		if win < 0 {
			win = 0
		}
		for i := range sc.Scripts {
			sc.Scripts[i].Outcomes = append([]Outcome{
				{Dur: L * 3, Coop: pick(r, CoopReturn, CoopResult, CoopIgnore), Err: EA},
				{Dur: win, Result: 1},
			}, sc.Scripts[i].Outcomes...)
		}
	}
	sc.Clients = []Client{{Ops: ops}}
	terminating(sc)
	return &Case{Sc: sc}
}

func genC19(r *Rnd, t Tier) *Case {
	switch r.Intn(15) {
	case 13, 14:
		return genC19Nested(r, t)
	case 10, 11, 12:
		c := genC18(r, t)
		c.Sc.Family = "c19adapter"
		for i := range c.Sc.Adapter.Server {
			c.Sc.Adapter.Server[i].LateUpload = false // the simulated transport's own background upload would count as lingering
		}
		if r.P(0.3) {
			c.Sc.Adapter.Repeat = 20
			c.Sc.Adapter.CancelAt = 0
		}
		if c.Sc.Adapter.Proto == "http" && r.P(0.1) {
			// every attempt fails before it reaches the transport: whatever was set up for it must still be released
			c.Sc.Adapter.Body = BodySeekFails
			c.Sc.Adapter.BodySize = 64
			c.Sc.Adapter.Redo = false
		}
		return c
	case 0, 1, 2:
		c := genC08(r, t)
		return c
	case 3:
		return genC07(r, t)
	case 4:
		return genC09(r, t)
	case 5:
		c := genC06(r, t)
		return c
	case 6:
		c := genC15(r, t)
		return c
	case 7:
		// repetition: the same execution 50 times
		c := genC01(r, Tier{})
		sc := c.Sc
		var ops []Op
		var first *Op
		for i := range sc.Clients[0].Ops {
			if sc.Clients[0].Ops[i].Kind == "exec" {
				first = &sc.Clients[0].Ops[i]
				break
			}
		}
		for i := 0; i < 50; i++ {
			ops = append(ops, *first)
		}
		sc.Clients[0].Ops = ops
		sc.Family = "c19rep"
		return c
	default:
		return genC01(r, t)
	}
}

func checkC19(c *checkCtx) {
	res := c.Res
	if res.Out.TaskOverflow {
		return
	}
	if res.Out.Stalled || res.Out.Deadlock || res.Out.Livelock {
		// progress problems belong to the property whose family this is; leaks are judged only on runs whose clients finished
		c.cov("c19.run_did_not_finish")
		return
	}
	c.cov("c19.runs_checked")
	// (a) every goroutine the library started has exited after quiescence and the grace period
	for _, t := range res.Survivors {
		if t.Kind == simrt.KindClient {
			continue
		}
		kind := "goroutine"
		if t.Kind == simrt.KindTimer {
			kind = "timer callback"
		}
		c.fail("C19.goroutine", t.CreateSite, fmt.Sprintf("a %s started by the library at %s is still alive one hour (fake) after every execution finished; it last stopped at %s", kind, t.CreateSite, t.Site))
	}
	// (b) no timer is left armed once nobody can be waiting for it
	for _, tr := range res.Timers {
		if tr.PendingAtQuiescence {
			c.fail("C19.timer", tr.Site, fmt.Sprintf("a %s of %v created by task %d was still armed (%v left) when every goroutine of the run had finished: it was neither stopped nor did it fire", tr.Site, tr.D, tr.Task, tr.Remaining))
			break
		}
	}
	// (c) the bubble must be empty when the run ends
	if res.BubblePanic != "" && len(res.Survivors) == 0 {
		c.fail("C19.bubble", "blocked-goroutines", "goroutines outside the task registry remained blocked when the simulation ended: "+firstLine(res.BubblePanic))
	}
	// (d) library goroutines end shortly after the execution they belong to
	if !res.Out.Quiescent.IsZero() {
		late := res.Out.Quiescent.Sub(res.Out.ClientsEnd)
		// time after the last execution returned during which library goroutines were still alive
		// although no invocation of the user's function or fallback was in progress
		ce, q := res.Out.ClientsEnd.Sub(res.Start), res.Out.Quiescent.Sub(res.Start)
		var idle time.Duration
		inflight := 0
		last := time.Duration(0)
		span := func(from, to time.Duration) {
			if from < ce {
				from = ce
			}
			if to > q {
				to = q
			}
			if inflight == 0 && to > from {
				idle += to - from
			}
		}
		for i := range res.Log.Ev {
			e := &res.Log.Ev[i]
			span(last, e.T)
			last = e.T
			switch e.Kind {
			case EvFnStart, EvFallbackFn:
				inflight++
			case EvFnEnd, EvFallbackFnEnd:
				if inflight > 0 {
					inflight--
				}
			}
		}
		span(last, q)
		userTail := late - idle
		if idle > 0 {
			// where did the last library goroutine to finish wait?
			where := "?"
			var lastExit time.Time
			for _, t := range res.Tasks {
				if t.Kind != simrt.KindClient && t.State == simrt.StExited && t.ExitTime.After(lastExit) {
					lastExit = t.ExitTime
					where = t.LastBlock
				}
			}
			if i := indexByte(where, ':'); i >= 0 {
				where = where[:i]
			}
			c.fail("C19.lingering", "waited-in:"+where, fmt.Sprintf("library goroutines kept running until %v after the last execution returned; user code was in progress for only %v of that time", late, userTail))
		}
	}
	// (e) HTTP: responses the adapter obtained but did not hand to the caller are closed
	if a := res.Sc.Adapter; a != nil && a.Proto == "http" && res.AW != nil {
		c.cov("c19.http_runs")
		returned := map[int]bool{}
		for i := range res.Log.Ev {
			e := &res.Log.Ev[i]
			if e.Kind == EvAdapter && e.L == AdReturn && e.A >= 0 {
				returned[int(e.B)] = true
			}
		}
		for _, b := range res.AW.bodies {
			if !returned[b.attempt] {
				c.cov("c19.http_discarded_responses")
				if b.closed == 0 {
					why := "retried"
					for _, p := range a.Policies {
						if p.Kind == "hedge" {
							why = "retried or losing"
						}
					}
					c.fail("C19.http-body", "unclosed", fmt.Sprintf("the response of attempt %d (%s, not returned to the caller) was never closed: its connection is not released", b.attempt, why))
					break
				}
			}
		}
	}
	if res.Sc.Family == "c19rep" || (res.Sc.Adapter != nil && res.Sc.Adapter.Repeat > 1) {
		c.cov("c19.repetition_runs")
	}
}

func indexByte(s string, b byte) int {
	for i := 0; i < len(s); i++ {
		if s[i] == b {
			return i
		}
	}
	return -1
}

func firstLine(s string) string {
	for i := 0; i < len(s); i++ {
		if s[i] == '\n' {
			return s[:i]
		}
	}
	return s
}
