package harness

import (
	"errors"
	"github.com/failsafe-go/failsafe-go/retrypolicy"
	"reflect"
	"time"
)

// Node is one call through a probe: the composition from stack position Pos
// inwards was entered and (maybe) returned.
type Node struct {
	Exec, Pos, Stack int
	Task             int
	Enter, Exit      *Event
	Parent           *Node
	Children         []*Node
	FnStart, FnEnd   *Event // for the innermost position
	// annotations left by the local models
	Class    []int // per child: Yes (failure) / No / Either as classified by this layer; -1 = not handled by it
	Exceeded bool  // retry: gave up because retries/duration exceeded
	Aborted  bool  // retry: stopped on an abort condition
	Modelled bool  // the layer's local model ran to completion on this call
	Applied  bool  // fallback: output applied
}

func (n *Node) exited() bool { return n.Exit != nil }

// ExecView groups everything recorded about one execution.
type ExecView struct {
	ID        int
	Op        *Op
	StackIdx  int
	Stack     []int
	Events    []*Event
	Root      *Node
	Nodes     []*Node
	OpStart   *Event
	OpEnd     *Event
	FnStarts  []*Event
	FnEnds    []*Event
	Cancel0   *Event // cancellation source began to fire
	Cancel1   *Event // cancellation source call returned
	Listeners []*Event
}

func (v *ExecView) policyAt(sc *Scenario, pos int) *PolicySpec {
	if pos < 0 || pos >= len(v.Stack) {
		return nil
	}
	return &sc.Policies[v.Stack[pos]]
}

func (v *ExecView) listeners(pol, l int) []*Event {
	var out []*Event
	for _, e := range v.Listeners {
		if e.L == l && (pol == -2 || e.Pos == pol) {
			out = append(out, e)
		}
	}
	return out
}

func analyse(res *RunResult) []*ExecView {
	sc := res.Sc
	if sc.Adapter != nil {
		return nil
	}
	n := sc.numExecs()
	views := make([]*ExecView, n+1)
	for id := 1; id <= n; id++ {
		op := sc.opByExec(id)
		views[id] = &ExecView{ID: id, Op: op, StackIdx: op.Stack, Stack: sc.Stacks[op.Stack]}
	}
	parentOf := func(task int) int {
		if task < 0 || task >= len(res.Tasks) {
			return -1
		}
		return res.Tasks[task].Parent
	}
	// open nodes per execution: task -> stack of nodes
	type key struct{ exec, task int }
	open := map[key][]*Node{}
	for i := range res.Log.Ev {
		e := &res.Log.Ev[i]
		if e.Exec < 1 || e.Exec > n {
			continue
		}
		v := views[e.Exec]
		v.Events = append(v.Events, e)
		switch e.Kind {
		case EvOpStart:
			v.OpStart = e
		case EvOpEnd:
			v.OpEnd = e
		case EvCancel:
			if e.B == 0 {
				if v.Cancel0 == nil {
					v.Cancel0 = e
				}
			} else if v.Cancel1 == nil {
				v.Cancel1 = e
			}
		case EvListener:
			v.Listeners = append(v.Listeners, e)
		case EvProbeEnter:
			nd := &Node{Exec: e.Exec, Pos: e.Pos, Stack: int(e.A), Task: e.Task, Enter: e}
			// parent: the innermost open call at Pos-1 in the same task; otherwise the call
			// at Pos-1 of an ancestor task during which this task's lineage was created
			if e.Pos > 0 {
				st := open[key{e.Exec, e.Task}]
				for j := len(st) - 1; j >= 0; j-- {
					if st[j].Pos == e.Pos-1 {
						nd.Parent = st[j]
						break
					}
				}
				for cur := e.Task; nd.Parent == nil && parentOf(cur) >= 0; cur = parentOf(cur) {
					anc := parentOf(cur)
					born := res.Tasks[cur].StartStep
					for j := len(v.Nodes) - 1; j >= 0; j-- {
						c := v.Nodes[j]
						if c.Task == anc && c.Pos == e.Pos-1 && c.Enter.Step <= born && (c.Exit == nil || c.Exit.Step >= born) {
							nd.Parent = c
							break
						}
					}
				}
				if nd.Parent != nil {
					nd.Parent.Children = append(nd.Parent.Children, nd)
				}
			} else if v.Root == nil {
				v.Root = nd
			}
			v.Nodes = append(v.Nodes, nd)
			k := key{e.Exec, e.Task}
			open[k] = append(open[k], nd)
		case EvProbeExit:
			k := key{e.Exec, e.Task}
			st := open[k]
			for j := len(st) - 1; j >= 0; j-- {
				if st[j].Pos == e.Pos && st[j].Exit == nil {
					st[j].Exit = e
					// keep exited nodes findable as parents of late children (hedge losers): remove only from this task's open list
					open[k] = append(st[:j:j], st[j+1:]...)
					break
				}
			}
		case EvFnStart:
			v.FnStarts = append(v.FnStarts, e)
			st := open[key{e.Exec, e.Task}]
			if len(st) > 0 {
				st[len(st)-1].FnStart = e
			}
		case EvFnEnd:
			v.FnEnds = append(v.FnEnds, e)
			st := open[key{e.Exec, e.Task}]
			if len(st) > 0 {
				st[len(st)-1].FnEnd = e
			}
		}
	}
	return views[1:]
}

// sameOutcome compares a returned (value, error) pair with an expected one.
func sameOutcome(v1 any, e1 error, v2 any, e2 error) bool {
	return sameErr(e1, e2) && reflect.DeepEqual(v1, v2)
}

func sameErr(a, b error) bool {
	if a == nil || b == nil {
		return a == nil && b == nil
	}
	if a == b {
		return true
	}
	ta, tb := reflect.TypeOf(a), reflect.TypeOf(b)
	if ta != tb {
		return false
	}
	if ea, ok := a.(retrypolicy.ExceededError); ok {
		// the carried result is compared like every result: by value
		eb := b.(retrypolicy.ExceededError)
		return reflect.DeepEqual(ea.LastResult, eb.LastResult) && sameErr(ea.LastError, eb.LastError)
	}
	if ta.Comparable() {
		return a == b
	}
	return a.Error() == b.Error()
}

func isErr(err, target error) bool { return err != nil && errors.Is(err, target) }

var _ = time.Second
