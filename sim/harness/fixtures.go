package harness

import (
	"context"
	"time"

	"github.com/failsafe-go/failsafe-go"
	"github.com/failsafe-go/failsafe-go/bulkhead"
	"github.com/failsafe-go/failsafe-go/cachepolicy"
	"github.com/failsafe-go/failsafe-go/circuitbreaker"
	"github.com/failsafe-go/failsafe-go/common"
	"github.com/failsafe-go/failsafe-go/fallback"
	"github.com/failsafe-go/failsafe-go/hedgepolicy"
	"github.com/failsafe-go/failsafe-go/ratelimiter"
	"github.com/failsafe-go/failsafe-go/retrypolicy"
	"github.com/failsafe-go/failsafe-go/timeout"

	"dsim/simrt"
)

// Listener ids.
const (
	LExecSuccess = iota + 1
	LExecFailure
	LExecDone
	LPolSuccess
	LPolFailure
	LRetryScheduled
	LRetry
	LRetriesExceeded
	LAbort
	LBrOpen
	LBrHalfOpen
	LBrClose
	LBrStateChanged
	LFull
	LRateLimitExceeded
	LTimeoutExceeded
	LFallbackExecuted
	LHedge
	LCacheHit
	LCacheMiss
	LCached
	LCount
)

var listenerNames = [LCount]string{"", "exec.OnSuccess", "exec.OnFailure", "exec.OnDone", "policy.OnSuccess", "policy.OnFailure",
	"retry.OnRetryScheduled", "retry.OnRetry", "retry.OnRetriesExceeded", "retry.OnAbort",
	"breaker.OnOpen", "breaker.OnHalfOpen", "breaker.OnClose", "breaker.OnStateChanged",
	"bulkhead.OnFull", "limiter.OnRateLimitExceeded", "timeout.OnTimeoutExceeded", "fallback.OnFallbackExecuted",
	"hedge.OnHedge", "cache.OnCacheHit", "cache.OnCacheMiss", "cache.OnResultCached"}

type R = any

// World is the instantiated scenario: real policy objects and harness fixtures.
type World struct {
	sc     *Scenario
	log    *Log
	pols   []failsafe.Policy[R]
	brs    []circuitbreaker.CircuitBreaker[R]
	bhs    []bulkhead.Bulkhead[R]
	rls    []ratelimiter.RateLimiter[R]
	caches []*simCache
	// per policy instance counters for delay functions
	delayCalls []int
	// per execution state
	fnCalls       []int // invocation counter per execution id
	fnActive      []int // functions in progress per policy instance (bulkhead / breaker accounting)
	cancels       []context.CancelFunc
	results       []failsafe.ExecutionResult[R]
	inFlightByPol []int
}

func applyHandle[S any](b failsafe.FailurePolicyBuilder[S, R], c Cond) {
	if c.Variadic {
		if len(c.Errors) > 0 {
			b.HandleErrors(condErrors(c)...)
		}
		if len(c.ErrTypes) > 0 {
			b.HandleErrorTypes(condErrTypes(c)...)
		}
	} else {
		for _, e := range c.Errors {
			b.HandleErrors(errTable[e])
		}
		for _, t := range c.ErrTypes {
			b.HandleErrorTypes(errTypeTargets[t])
		}
	}
	for _, r := range c.Results {
		b.HandleResult(resVal(r))
	}
	for _, p := range c.Preds {
		b.HandleIf(predFn(p))
	}
}

func condErrors(c Cond) []error {
	var out []error
	for _, e := range c.Errors {
		out = append(out, errTable[e])
	}
	return out
}

func condErrTypes(c Cond) []any {
	var out []any
	for _, t := range c.ErrTypes {
		out = append(out, errTypeTargets[t])
	}
	return out
}

//go:norace
func snapAttempt(e *Event, a failsafe.ExecutionAttempt[R]) {
	if a == nil {
		return
	}
	e.Flags |= FHasExec
	simrt.Quiet(func() {
		e.Attempts, e.Executions, e.Retries, e.Hedges = a.Attempts(), a.Executions(), a.Retries(), a.Hedges()
		if a.IsFirstAttempt() {
			e.Flags |= FFirst
		}
		if a.IsRetry() {
			e.Flags |= FRetry
		}
	})
	e.LastVal, e.LastErr = a.LastResult(), a.LastError()
	if cz, ok := a.(interface{ IsCanceled() bool }); ok && cz.IsCanceled() {
		e.Flags |= FIsCanceled
	}
	e.Start = a.StartTime().Sub(simrt.S.Start())
	e.AttemptStart = a.AttemptStartTime().Sub(simrt.S.Start())
	e.Elapsed, e.ElapsedAttempt = a.ElapsedTime(), a.ElapsedAttemptTime()
	e.Flags |= FHasElapsed
	if a.IsHedge() {
		e.Flags |= FHedge
	}
}

//go:norace
func snapInfo(e *Event, a failsafe.ExecutionInfo) {
	if a == nil {
		return
	}
	e.Flags |= FHasExec
	simrt.Quiet(func() {
		e.Attempts, e.Executions, e.Retries, e.Hedges = a.Attempts(), a.Executions(), a.Retries(), a.Hedges()
	})
	e.Start = a.StartTime().Sub(simrt.S.Start())
}

func (w *World) onEvent(pol, l int) func(failsafe.ExecutionEvent[R]) {
	return func(ev failsafe.ExecutionEvent[R]) {
		simrt.Yield("listener")
		e := Event{Kind: EvListener, Pos: pol, L: l}
		snapAttempt(&e, ev.ExecutionAttempt)
		w.log.add(e)
	}
}

func (w *World) onDoneEvent(pol, l int) func(failsafe.ExecutionDoneEvent[R]) {
	return func(ev failsafe.ExecutionDoneEvent[R]) {
		simrt.Yield("listener")
		e := Event{Kind: EvListener, Pos: pol, L: l, Val: ev.Result, Err: ev.Error}
		snapInfo(&e, ev.ExecutionInfo)
		w.log.add(e)
	}
}

func (w *World) delayFn(pol int, vals []D) failsafe.DelayFunc[R] {
	return func(exec failsafe.ExecutionAttempt[R]) time.Duration {
		if d := w.sc.Policies[pol].DelayFnTakes; d > 0 {
			sleep(d) // user code: a delay function that looks something up
		}
		n := w.nextDelayCall(pol)
		d := vals[n%len(vals)]
		e := Event{Kind: EvDelayFn, Pos: pol, A: int64(d), B: int64(n)}
		snapAttempt(&e, exec)
		w.log.add(e)
		return d
	}
}

func (w *World) build(sc *Scenario, log *Log) {
	w.sc, w.log = sc, log
	n := len(sc.Policies)
	w.pols = make([]failsafe.Policy[R], n)
	w.brs = make([]circuitbreaker.CircuitBreaker[R], n)
	w.bhs = make([]bulkhead.Bulkhead[R], n)
	w.rls = make([]ratelimiter.RateLimiter[R], n)
	w.caches = make([]*simCache, n)
	w.delayCalls = make([]int, n)
	w.inFlightByPol = make([]int, n)
	ne := sc.numExecs() + 2
	w.fnCalls = make([]int, ne)
	w.cancels = make([]context.CancelFunc, ne)
	w.results = make([]failsafe.ExecutionResult[R], ne)
	for i := range sc.Policies {
		p := &sc.Policies[i]
		switch p.Kind {
		case KRetry:
			b := retrypolicy.Builder[R]()
			applyHandle[retrypolicy.RetryPolicyBuilder[R]](b, p.Handle)
			if p.Abort.Variadic {
				if len(p.Abort.Errors) > 0 {
					b.AbortOnErrors(condErrors(p.Abort)...)
				}
				if len(p.Abort.ErrTypes) > 0 {
					b.AbortOnErrorTypes(condErrTypes(p.Abort)...)
				}
			} else {
				for _, e := range p.Abort.Errors {
					b.AbortOnErrors(errTable[e])
				}
				for _, t := range p.Abort.ErrTypes {
					b.AbortOnErrorTypes(errTypeTargets[t])
				}
			}
			for _, r := range p.Abort.Results {
				b.AbortOnResult(resVal(r))
			}
			for _, pr := range p.Abort.Preds {
				b.AbortIf(predFn(pr))
			}
			if p.MaxAttempts {
				if p.MaxRetries == -1 {
					b.WithMaxAttempts(-1)
				} else {
					b.WithMaxAttempts(p.MaxRetries + 1)
				}
			} else {
				b.WithMaxRetries(p.MaxRetries)
			}
			if p.ReturnLast {
				b.ReturnLastFailure()
			}
			if p.MaxDuration != 0 {
				b.WithMaxDuration(p.MaxDuration)
			}
			if p.PreReplaced && p.DelayKind != DelayNone {
				// "Replaces any previously configured delay or backoff delay": nothing of these two may survive
				b.WithBackoffFactor(3*time.Millisecond, 48*time.Millisecond, 2).WithRandomDelay(time.Millisecond, 6*time.Millisecond)
			}
			switch p.DelayKind {
			case DelayFixed:
				b.WithDelay(p.Delay)
			case DelayBackoff:
				if p.Factor == 2 {
					b.WithBackoff(p.Delay, p.MaxDelay) // the documented factor of the short form
				} else {
					b.WithBackoffFactor(p.Delay, p.MaxDelay, p.Factor)
				}
			case DelayRandom:
				b.WithRandomDelay(p.DelayMin, p.DelayMax)
			}
			if len(p.DelayFn) > 0 {
				b.WithDelayFunc(w.delayFn(i, p.DelayFn))
			}
			if p.Jitter != 0 {
				b.WithJitter(p.Jitter)
			}
			if p.JitterFactor != 0 {
				b.WithJitterFactor(p.JitterFactor)
			}
			b.OnSuccess(w.onEvent(i, LPolSuccess)).OnFailure(w.onEvent(i, LPolFailure)).
				OnRetry(w.onEvent(i, LRetry)).OnRetriesExceeded(w.onEvent(i, LRetriesExceeded)).OnAbort(w.onEvent(i, LAbort)).
				OnRetryScheduled(func(ev failsafe.ExecutionScheduledEvent[R]) {
					simrt.Yield("listener")
					e := Event{Kind: EvListener, Pos: i, L: LRetryScheduled, A: int64(ev.Delay)}
					snapAttempt(&e, ev.ExecutionAttempt)
					w.log.add(e)
				})
			w.pols[i] = b.Build()
		case KBreaker:
			b := circuitbreaker.Builder[R]()
			applyHandle[circuitbreaker.CircuitBreakerBuilder[R]](b, p.Handle)
			switch p.BrKind {
			case 0:
				b.WithFailureThreshold(p.FailThr)
			case 1:
				b.WithFailureThresholdRatio(p.FailThr, p.FailCap)
			case 2:
				b.WithFailureThresholdPeriod(p.FailThr, p.Period)
			case 3:
				b.WithFailureRateThreshold(p.RateThr, p.ExecThr, p.Period)
			}
			if p.SuccThr != 0 {
				if p.SuccCap != 0 {
					b.WithSuccessThresholdRatio(p.SuccThr, p.SuccCap)
				} else {
					b.WithSuccessThreshold(p.SuccThr)
				}
			}
			b.WithDelay(p.Delay)
			if len(p.DelayFn) > 0 {
				b.WithDelayFunc(w.delayFn(i, p.DelayFn))
			}
			sc := func(l int) func(circuitbreaker.StateChangedEvent) {
				return func(ev circuitbreaker.StateChangedEvent) {
					simrt.Yield("listener")
					m := ev.Metrics()
					e := Event{Kind: EvListener, Pos: i, L: l, A: int64(ev.OldState), B: int64(ev.NewState),
						Attempts: int(m.Executions()), Executions: int(m.Failures()), Retries: int(m.Successes()), Hedges: int(m.FailureRate()),
						Aux: []int{int(m.SuccessRate()), map[bool]int{false: 0, true: 1}[ev.Context() == nil]}}
					w.log.add(e)
				}
			}
			if p.NoListeners&1 == 0 {
				b.OnOpen(sc(LBrOpen))
			}
			if p.NoListeners&2 == 0 {
				b.OnHalfOpen(sc(LBrHalfOpen))
			}
			if p.NoListeners&4 == 0 {
				b.OnClose(sc(LBrClose))
			}
			if p.NoListeners&8 == 0 {
				b.OnStateChanged(sc(LBrStateChanged))
			}
			b.OnSuccess(w.onEvent(i, LPolSuccess)).OnFailure(w.onEvent(i, LPolFailure))
			br := b.Build()
			w.brs[i] = br
			w.pols[i] = br
		case KLimiter:
			var b ratelimiter.RateLimiterBuilder[R]
			if p.Smooth {
				b = ratelimiter.SmoothBuilderWithMaxRate[R](p.Interval)
			} else {
				b = ratelimiter.BurstyBuilder[R](p.MaxExec, p.Period)
			}
			b.WithMaxWaitTime(p.MaxWait).OnRateLimitExceeded(w.onEvent(i, LRateLimitExceeded))
			rl := b.Build()
			w.rls[i] = rl
			w.pols[i] = rl
		case KBulkhead:
			b := bulkhead.Builder[R](p.MaxConc).WithMaxWaitTime(p.MaxWait).OnFull(w.onEvent(i, LFull))
			bh := b.Build()
			w.bhs[i] = bh
			w.pols[i] = bh
		case KTimeout:
			w.pols[i] = timeout.Builder[R](p.Limit).OnTimeoutExceeded(w.onDoneEvent(i, LTimeoutExceeded)).Build()
		case KHedge:
			var b hedgepolicy.HedgePolicyBuilder[R]
			if len(p.DelayFn) > 0 {
				b = hedgepolicy.BuilderWithDelayFunc[R](w.delayFn(i, p.DelayFn))
			} else {
				b = hedgepolicy.BuilderWithDelay[R](p.Delay)
			}
			b.WithMaxHedges(p.MaxHedges).OnHedge(w.onEvent(i, LHedge))
			if p.Cancel.Variadic {
				if len(p.Cancel.Errors) > 0 {
					b.CancelOnErrors(condErrors(p.Cancel)...)
				}
				if len(p.Cancel.ErrTypes) > 0 {
					b.CancelOnErrorTypes(condErrTypes(p.Cancel)...)
				}
			} else {
				for _, e := range p.Cancel.Errors {
					b.CancelOnErrors(errTable[e])
				}
				for _, t := range p.Cancel.ErrTypes {
					b.CancelOnErrorTypes(errTypeTargets[t])
				}
			}
			for _, r := range p.Cancel.Results {
				b.CancelOnResult(resVal(r))
			}
			for _, pr := range p.Cancel.Preds {
				b.CancelIf(predFn(pr))
			}
			w.pols[i] = b.Build()
		case KFallback:
			var b fallback.FallbackBuilder[R]
			switch p.FbKind {
			case 0:
				b = fallback.BuilderWithResult[R](p.FbResult)
			case 1:
				b = fallback.BuilderWithError[R](errTable[p.FbErr])
			default:
				b = fallback.BuilderWithFunc[R](w.fallbackFn(i, p))
			}
			applyHandle[fallback.FallbackBuilder[R]](b, p.Handle)
			b.OnFallbackExecuted(w.onDoneEvent(i, LFallbackExecuted)).OnSuccess(w.onEvent(i, LPolSuccess)).OnFailure(w.onEvent(i, LPolFailure))
			w.pols[i] = b.Build()
		case KCache:
			c := newSimCache(w, i)
			for _, k := range sortedKeys(p.Preload) {
				c.set(k, p.Preload[k])
			}
			w.caches[i] = c
			b := cachepolicy.Builder[R](c)
			if p.Key != "" {
				b.WithKey(p.Key)
			}
			for _, pr := range p.CacheIf {
				b.CacheIf(predFn(pr))
			}
			b.OnCacheHit(w.onDoneEvent(i, LCacheHit)).OnCacheMiss(w.onEvent(i, LCacheMiss)).OnResultCached(w.onEvent(i, LCached))
			w.pols[i] = b.Build()
		default:
			panic("unknown policy kind " + p.Kind)
		}
	}
}

// ---- fallback function ------------------------------------------------------

func (w *World) fallbackFn(pol int, p *PolicySpec) func(failsafe.Execution[R]) (R, error) {
	return func(exec failsafe.Execution[R]) (R, error) {
		e := Event{Kind: EvFallbackFn, Pos: pol}
		snapAttempt(&e, exec)
		if exec.IsCanceled() {
			e.Flags |= FIsCanceled
		}
		w.log.add(e)
		if p.FbDur > 0 {
			waitOrCancel(p.FbDur, exec.Canceled(), "fallback.wait")
		}
		w.log.add(Event{Kind: EvFallbackFnEnd, Pos: pol, Val: p.FbResult, Err: errTable[p.FbErr]})
		return p.FbResult, errTable[p.FbErr]
	}
}

// waitOrCancel blocks for d of fake time or until cancel is closed; it reports
// whether cancellation ended the wait. The poll order at an exact tie is a
// simulator decision.
func waitOrCancel(d time.Duration, cancel <-chan struct{}, site string) bool {
	tm := time.NewTimer(d)
	simrt.Yield(site)
	pollCancel := func() bool {
		select {
		case <-cancel:
			return true
		default:
			return false
		}
	}
	pollTimer := func() bool {
		select {
		case <-tm.C:
			return true
		default:
			return false
		}
	}
	if simrt.SelectOrder(2) == 0 {
		if pollCancel() {
			tm.Stop()
			return true
		}
		if pollTimer() {
			return false
		}
	} else {
		if pollTimer() {
			return false
		}
		if pollCancel() {
			tm.Stop()
			return true
		}
	}
	t := simrt.BlockBeginNoYield(site)
	canceled := false
	select {
	case <-tm.C:
	case <-cancel:
		canceled = true
		tm.Stop()
	}
	simrt.BlockEnd(t)
	return canceled
}

// sleep blocks the calling task for d of fake time.
func sleep(d time.Duration) {
	if d <= 0 {
		simrt.Yield("sleep0")
		return
	}
	t := simrt.BlockBegin("sleep")
	time.Sleep(d)
	simrt.BlockEnd(t)
}

// ---- cache ------------------------------------------------------------------

// simCache is the user-side cache. It is accessed by one task at a time (the
// simulator runs one task at a time) through norace helpers over plain slices
// (the map runtime is race-instrumented), so it adds no synchronisation of its
// own.
type simCache struct {
	w    *World
	pol  int
	keys []string
	vals []any
	sync int // race detector: stands for the lock a real cache implementation has (values pass from the storing to the reading goroutine)
}

func newSimCache(w *World, pol int) *simCache { return &simCache{w: w, pol: pol} }

func (c *simCache) Get(key string) (R, bool) {
	simrt.Yield("cache.Get")
	simrt.HarnessAcquire(&c.sync)
	v, ok := c.get(key)
	f := 0
	if ok {
		f = 1
	}
	c.w.log.add(Event{Kind: EvCacheGet, Pos: c.pol, Str: key, Val: v, A: int64(f)})
	return v, ok
}

func (c *simCache) Set(key string, v R) {
	simrt.Yield("cache.Set")
	c.set(key, v)
	simrt.HarnessRelease(&c.sync)
	c.w.log.add(Event{Kind: EvCacheSet, Pos: c.pol, Str: key, Val: v})
}

//go:norace
func (c *simCache) get(key string) (any, bool) {
	for i, k := range c.keys {
		if k == key {
			return c.vals[i], true
		}
	}
	return nil, false
}

//go:norace
func (c *simCache) set(key string, v any) {
	for i, k := range c.keys {
		if k == key {
			c.vals[i] = v
			return
		}
	}
	c.keys = append(c.keys, key)
	c.vals = append(c.vals, v)
}

// ---- probes -----------------------------------------------------------------

// probe is a pass-through policy inserted between adjacent policies and around
// the function. It records what the layer inside returned.
type probe struct {
	w     *World
	stack int
	pos   int
}

type probeExec struct{ p *probe }

func (p *probe) ToExecutor(_ R) any { return &probeExec{p} }

func (pe *probeExec) Apply(inner func(failsafe.Execution[R]) *common.PolicyResult[R]) func(failsafe.Execution[R]) *common.PolicyResult[R] {
	return func(exec failsafe.Execution[R]) *common.PolicyResult[R] {
		p := pe.p
		e := Event{Kind: EvProbeEnter, Pos: p.pos, A: int64(p.stack), Ref: exec}
		if exec.IsCanceled() {
			e.Flags |= FIsCanceled
		}
		p.w.log.add(e)
		enter := p.w.log.lastSeq()
		r := inner(exec)
		x := Event{Kind: EvProbeExit, Pos: p.pos, A: int64(p.stack), Ref: exec}
		// at the moment this layer returns: which of the executions handed to the layer inside are cancelled
		x.Aux = p.w.log.childCanceled(enter, p.pos+1)
		if r == nil {
			x.Flags |= FNilResult
		} else {
			x.Val, x.Err = r.Result, r.Error
			if r.Done {
				x.Flags |= FDone
			}
			if r.Success {
				x.Flags |= FSuccess
			}
			if r.SuccessAll {
				x.Flags |= FSuccessAll
			}
		}
		if exec.IsCanceled() {
			x.Flags |= FIsCanceled
		}
		p.w.log.add(x)
		return r
	}
}

func quiet(f func()) { simrt.Quiet(f) }
