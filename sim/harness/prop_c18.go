package harness

import (
	"context"
	"errors"
	"fmt"
	"time"

	"github.com/failsafe-go/failsafe-go/retrypolicy"
	"google.golang.org/grpc/codes"
	"google.golang.org/grpc/status"

	"dsim/simrt"
)

func init() {
	register(&PropDef{ID: "C18", Level: "exploration", Gen: genC18, Check: checkC18})
}

func genAdapterPolicies(r *Rnd, unit time.Duration, proto string) []AdapterPolicy {
	var out []AdapterPolicy
	kinds := []string{"retry"}
	if r.P(0.15) {
		kinds = nil
	}
	for r.P(0.4) && len(kinds) < 3 {
		kinds = append(kinds, pick(r, "timeout", "hedge", "breaker", "fallback", "timeout"))
	}
	shuffle(r, kinds)
	for _, k := range kinds {
		p := AdapterPolicy{Kind: k}
		switch k {
		case "retry":
			p.MaxRetries = pick(r, 2, 2, 1, 3)
			p.ReturnLast = r.P(0.4)
		case "timeout":
			p.Limit = time.Duration(r.Range(20, 200)) * unit
		case "hedge":
			p.Delay = time.Duration(r.Range(5, 40)) * unit
			p.MaxHedges = r.Range(1, 2)
		case "breaker":
			p.FailThr = uint(r.Range(2, 5))
		}
		out = append(out, p)
	}
	return out
}

func genC18(r *Rnd, t Tier) *Case {
	unit := ms
	spec := &AdapterSpec{}
	sc := &Scenario{Family: "c18", Adapter: spec}
	if r.P(0.65) {
		spec.Proto = "http"
		spec.Method = pick(r, "GET", "POST", "PUT", "DELETE")
		spec.Body = r.Intn(7)
		spec.BodySize = pick(r, 0, 1, 17, 1024, 4096, 65536)
		if r.P(0.0008) {
			spec.BodySize = pick(r, 1<<20+1, 9<<20+5, 17<<20+3) // "every body size": a few large bodies (kept rare: each costs tens of milliseconds)
		}
		if spec.Body == BodyNil || spec.Body == BodyEmpty {
			spec.BodySize = 0
		}
		switch r.Intn(3) {
		case 0:
			spec.ViaRequest = true
		case 1:
			spec.ViaClient = true
		}
		spec.ReqCtx = pick(r, ACtxBackground, ACtxTODO, ACtxCancel, ACtxValues, ACtxDeadline, ACtxValues, ACtxDeadlineValues)
		spec.ExecCtx = pick(r, ACtxNone, ACtxBackground, ACtxCancel, ACtxValues, ACtxNone, ACtxDeadline, ACtxDeadlineValues)
		if spec.BodySize > 0 && r.P(0.35) {
			spec.UploadDelay = time.Duration(r.Range(1, 8)) * unit
		}
	} else {
		spec.Proto = pick(r, "grpc-client", "grpc-client", "grpc-server", "grpc-tap")
		spec.ReqCtx = pick(r, ACtxBackground, ACtxCancel, ACtxValues, ACtxDeadline, ACtxValues, ACtxDeadlineValues)
		spec.ExecCtx = pick(r, ACtxNone, ACtxBackground, ACtxCancel, ACtxValues, ACtxDeadline, ACtxDeadlineValues)
	}
	spec.ViaPolicies = r.P(0.3)
	spec.Redo = spec.Proto == "http" && spec.Body == BodySeekCloser && r.P(0.4)
	spec.CtxD = time.Duration(r.Range(50, 500)) * unit
	spec.CtxD2 = time.Duration(r.Range(30, 600)) * unit // earlier or later than the caller's
	if r.P(0.5) {
		// far deadlines: present, but not reached
		spec.CtxD += 100000 * unit
		spec.CtxD2 += time.Duration(r.Range(50000, 150000)) * unit
	}
	spec.Policies = genAdapterPolicies(r, unit, spec.Proto)
	if spec.Proto == "grpc-tap" {
		spec.Policies = []AdapterPolicy{{Kind: pick(r, "breaker", "timeout"), FailThr: 2, Limit: 50 * unit}}
	}
	for i, n := 0, r.Range(1, 5); i < n; i++ {
		st := ServerStep{}
		if spec.Proto == "http" {
			st.Status = pick(r, 200, 200, 201, 404, 400, 429, 500, 501, 502, 503, 503, 429, pick(r, 504, 507, 511, 512, 520, 529, 598, 599, 499, 300, 204))
			if (st.Status == 429 || st.Status == 503) && r.P(0.6) {
				st.RetryAfter = r.Range(1, 3)
			}
			st.ConnErr = r.P(0.12)
			st.ConnErrTimeout = st.ConnErr && r.P(0.35)
			st.LateUpload = r.P(0.15)
			st.BodySize = pick(r, 0, 5, 300, 5000)
			if st.BodySize > 0 && r.P(0.4) {
				st.Chunks = r.Range(2, 4)
				st.ChunkDelay = time.Duration(r.Range(0, 10)) * unit
			}
		} else {
			st.Code = int(pick(r, codes.OK, codes.OK, codes.Unavailable, codes.DeadlineExceeded, codes.ResourceExhausted, codes.NotFound, codes.Internal, codes.Aborted, codes.Unavailable))
			st.PlainErr = r.P(0.08)
			st.Wrapped = st.Code != 0 && r.P(0.25)
		}
		if r.P(0.4) {
			st.Delay = time.Duration(r.Range(1, 30)) * unit
		}
		spec.Server = append(spec.Server, st)
	}
	if (spec.ReqCtx == ACtxCancel || spec.ExecCtx == ACtxCancel) && r.P(0.4) {
		spec.CancelAt = time.Duration(r.Range(1, 60)) * unit
	}
	return &Case{Sc: sc}
}

type attemptRec struct {
	idx       int
	recv, end *Event
}

func adapterAttempts(res *RunResult) (atts []*attemptRec, ret *Event, read *Event, closes map[int]int, cancel *Event) {
	closes = map[int]int{}
	byIdx := map[int]*attemptRec{}
	for i := range res.Log.Ev {
		e := &res.Log.Ev[i]
		if e.Kind != EvAdapter {
			continue
		}
		switch e.L {
		case AdAttempt:
			a := &attemptRec{idx: int(e.A), recv: e}
			byIdx[a.idx] = a
			atts = append(atts, a)
		case AdAttemptEnd:
			if a := byIdx[int(e.A)]; a != nil {
				a.end = e
			}
		case AdReturn:
			if ret == nil {
				ret = e
			}
		case AdBodyRead:
			if read == nil {
				read = e
			}
		case AdBodyClose:
			closes[int(e.A)]++
		case AdCallerCancel:
			cancel = e
		}
	}
	return
}

func httpRetryable(st ServerStep) bool {
	if st.ConnErr {
		return true
	}
	s := st.Status
	if s == 0 {
		s = 200
	}
	return s == 429 || (s >= 500 && s != 501)
}

func grpcRetryable(st ServerStep) bool {
	if st.PlainErr {
		return false
	}
	c := codes.Code(st.Code)
	return c == codes.Unavailable || c == codes.DeadlineExceeded || c == codes.ResourceExhausted
}

func checkC18(c *checkCtx) {
	res := c.Res
	spec := res.Sc.Adapter
	if spec == nil {
		return
	}
	if res.Out.Stalled || res.Out.Deadlock || res.Out.Livelock {
		c.fail("C18.progress", "stall", "the adapter call did not finish: "+survivorText(res))
		return
	}
	for _, p := range res.Panics {
		c.fail("C18.panic", "panic", "a task panicked: "+p)
		return
	}
	atts, ret, read, _, cancel := adapterAttempts(res)
	c.cov("c18.calls." + spec.Proto)
	// attempts of a second execution of the same request object are judged for fidelity only
	all := atts
	for i := range res.Log.Ev {
		if e := &res.Log.Ev[i]; e.Kind == EvAdapter && e.L == AdRedo {
			c.cov("c18.same_request_executed_again")
			var first []*attemptRec
			for _, a := range atts {
				if a.recv.Seq < e.Seq {
					first = append(first, a)
				}
			}
			atts = first
			break
		}
	}
	// 1. fidelity of every attempt
	for i := range res.Log.Ev {
		if e := &res.Log.Ev[i]; e.Kind == EvAdapter && e.L == AdLateBody {
			c.cov("c18.late_uploads")
			if e.B != 0 {
				c.fail("C18.fidelity", "late-body", fmt.Sprintf("attempt %d's request body was still being uploaded after its response had been returned and did not arrive complete: %s", e.A, e.Str))
				return
			}
		}
	}
	for _, a := range all {
		c.cov("c18.attempts")
		if a.recv.B != 0 {
			mask := a.recv.B
			if mask == PBody && a.end != nil && a.end.Err != nil && (errors.Is(a.end.Err, context.Canceled) || errors.Is(a.end.Err, context.DeadlineExceeded)) && spec.UploadDelay > 0 {
				continue // the upload was cut short by a cancellation of the attempt
			}
			sig := problemText(mask)
			c.fail("C18.fidelity", sig, fmt.Sprintf("attempt %d reached the %s with a wrong %s %s (request context kind %d, executor context kind %d)", a.idx, map[bool]string{true: "server", false: "invoker/handler"}[spec.Proto == "http"], problemText(mask), a.recv.Str, spec.ReqCtx, spec.ExecCtx))
			return
		}
	}
	if ret == nil {
		c.fail("C18.progress", "no-return", "the adapter call never returned")
		return
	}
	if spec.Proto == "grpc-tap" {
		if ret.B != 0 {
			c.fail("C18.transparent", "tap-context", "the ServerInHandle did not return the context it was given")
		}
		return
	}
	// 2. retry decisions: judged when the retry policy is the only policy and nothing was cancelled
	onlyRetry := len(spec.Policies) == 1 && spec.Policies[0].Kind == "retry"
	noPolicy := len(spec.Policies) == 0
	canceled := cancel != nil && cancel.Seq < ret.Seq
	deadlineHit := spec.deadlinePassed(ret.T)
	retryable := httpRetryable
	if spec.Proto != "http" {
		retryable = grpcRetryable
	}
	if (onlyRetry || noPolicy) && !canceled && !deadlineHit {
		max := 0
		if onlyRetry {
			max = spec.Policies[0].MaxRetries
		}
		want := 0
		for i := 0; ; i++ {
			want++
			st := stepOf(spec, i)
			if !retryable(st) || i >= max {
				break
			}
		}
		c.cov("c18.retry_model_checked")
		if len(atts) != want {
			c.fail("C18.retries", "count", fmt.Sprintf("server script %v with maxRetries=%d must be attempted %d time(s); attempts made: %d", briefSteps(spec), max, want, len(atts)))
			return
		}
		last := stepOf(spec, want-1)
		exceeded := onlyRetry && retryable(last) && !spec.Policies[0].ReturnLast
		// 4. the response finally returned is the last attempt's
		if spec.Proto == "http" {
			switch {
			case exceeded:
				if !errors.Is(ret.Err, retrypolicy.ErrExceeded) {
					c.fail("C18.result", "exceeded", fmt.Sprintf("retries were exceeded on %v but the caller received status %d err=%s", briefSteps(spec), ret.A, fmtErr(ret.Err)))
				}
			case last.ConnErr:
				if ret.Err == nil {
					c.fail("C18.result", "conn-error", "the last attempt failed with a connection error but the caller received no error")
				}
			default:
				st := last.Status
				if st == 0 {
					st = 200
				}
				if ret.Err != nil || int(ret.A) != st || int(ret.B) != want-1 {
					c.fail("C18.result", "last-attempt", fmt.Sprintf("the caller must receive attempt %d's response (status %d); it received status %d from attempt %d err=%s", want-1, st, ret.A, ret.B, fmtErr(ret.Err)))
				}
			}
		} else {
			wantErr := scriptedGRPCErr(last)
			switch {
			case exceeded:
				if !errors.Is(ret.Err, retrypolicy.ErrExceeded) {
					c.fail("C18.result", "exceeded", fmt.Sprintf("retries were exceeded but the caller received err=%s", fmtErr(ret.Err)))
				}
			case wantErr == nil:
				if ret.Err != nil || int(ret.A) != want {
					c.fail("C18.transparent", "reply", fmt.Sprintf("the call succeeded on attempt %d but the caller received reply %d err=%s", want-1, ret.A, fmtErr(ret.Err)))
				}
			default:
				if ret.Err == nil || status.Code(ret.Err) != status.Code(wantErr) || ret.Err.Error() != wantErr.Error() {
					c.fail("C18.transparent", "error", fmt.Sprintf("the last attempt failed with %q but the caller received %s", wantErr.Error(), fmtErr(ret.Err)))
				}
			}
		}
	}
	// 3. Retry-After is honoured
	if spec.Proto == "http" && !canceled {
		for i := 0; i+1 < len(atts); i++ {
			st := stepOf(spec, atts[i].idx)
			hasRetry := false
			for _, p := range spec.Policies {
				if p.Kind == "retry" {
					hasRetry = true
				}
				if p.Kind == "hedge" || p.Kind == "timeout" || p.Kind == "fallback" {
					// the answer may be replaced before the retry policy sees it (a timeout firing as the response arrives)
					hasRetry = false
					break
				}
			}
			if !hasRetry || st.RetryAfter == 0 || atts[i].end == nil || atts[i].end.Err != nil || !(atts[i].end.B == 429 || atts[i].end.B == 503) || atts[i].idx >= len(spec.Server) && false {
				continue
			}
			if deadlineHit || spec.deadlinePassed(atts[i+1].recv.T) {
				continue
			}
			c.cov("c18.retry_after_checked")
			gap := atts[i+1].recv.T - atts[i].end.T
			if gap < time.Duration(st.RetryAfter)*time.Second {
				c.fail("C18.retry-after", "early", fmt.Sprintf("attempt %d answered %d with Retry-After: %d but the next attempt arrived after %v", atts[i].idx, st.Status, st.RetryAfter, gap))
			}
		}
	}
	// 4b. the returned body can be read to the end
	if cancel != nil && read != nil && cancel.Seq < read.Seq {
		canceled = true
	}
	if read != nil && spec.deadlinePassed(read.T) {
		deadlineHit = true
	}
	if spec.Proto == "http" && read != nil && !canceled && !deadlineHit {
		timeoutInStack := false
		for _, p := range spec.Policies {
			if p.Kind == "timeout" || p.Kind == "hedge" {
				timeoutInStack = true
			}
		}
		c.cov("c18.body_read_checked")
		if read.Err != nil && !timeoutInStack {
			c.fail("C18.body", "unreadable:"+errClass(read.Err), fmt.Sprintf("the returned response body could not be read to the end: read %d of %d bytes, err=%s (request context kind %d, executor context kind %d)", read.A, read.B, fmtErr(read.Err), spec.ReqCtx, spec.ExecCtx))
		} else if read.Err == nil && read.A != read.B {
			c.fail("C18.body", "short", fmt.Sprintf("the returned response body was short: %d of %d bytes", read.A, read.B))
		}
	}
	// 5. the attempt's context ends when the caller's does
	if cancel != nil {
		for _, a := range atts {
			if a.end != nil && a.recv.Seq < cancel.Seq && a.end.Seq > cancel.Seq {
				c.cov("c18.cancel_during_attempt")
				if a.end.T != cancel.T && stepOf(spec, a.idx).Delay > 0 {
					c.fail("C18.context", "not-done", fmt.Sprintf("the caller cancelled its context at t=%v while attempt %d was waiting; the attempt's context was not done until t=%v", cancel.T, a.idx, a.end.T))
				}
			}
		}
	}
}

func stepOf(spec *AdapterSpec, n int) ServerStep {
	if len(spec.Server) == 0 {
		return ServerStep{Status: 200}
	}
	if n >= len(spec.Server) {
		n = len(spec.Server) - 1
	}
	return spec.Server[n]
}

func briefSteps(spec *AdapterSpec) []string {
	var out []string
	for _, s := range spec.Server {
		switch {
		case s.ConnErr:
			out = append(out, "conn-error")
		case spec.Proto == "http":
			out = append(out, fmt.Sprint(s.Status))
		case s.PlainErr:
			out = append(out, "plain-error")
		case s.Wrapped:
			out = append(out, "wrapped "+codes.Code(s.Code).String())
		default:
			out = append(out, codes.Code(s.Code).String())
		}
	}
	return out
}

var _ = context.Canceled
var _ = simrt.StExited
