package harness

import "time"

// rlModel is the greedy reference model of a rate limiter (DESIGN §6 C05).
// Smooth: slots [k*I,(k+1)*I) counted from the limiter's creation, one permit
// per slot. Bursty: at most N permits usable per aligned period. Permits are
// granted in request order at the earliest instant that respects this.
type rlModel struct {
	p *PolicySpec
	// smooth: index of the first slot no permit uses yet
	nextSlot int64
	// bursty: permits placed in periods >= base (used[i] is period base+i)
	base int64
	used []int
}

func newRlModel(p *PolicySpec) *rlModel { return &rlModel{p: p} }

func (m *rlModel) clone() *rlModel {
	c := *m
	c.used = append([]int(nil), m.used...)
	return &c
}

func (m *rlModel) equal(o *rlModel) bool {
	if m.nextSlot != o.nextSlot {
		return false
	}
	// compare bursty occupancy from the larger base on
	get := func(x *rlModel, q int64) int {
		i := q - x.base
		if i < 0 || i >= int64(len(x.used)) {
			return 0
		}
		return x.used[i]
	}
	lo, hi := m.base, m.base+int64(len(m.used))
	if o.base < lo {
		lo = o.base
	}
	if h := o.base + int64(len(o.used)); h > hi {
		hi = h
	}
	for q := lo; q < hi; q++ {
		if get(m, q) != get(o, q) {
			return false
		}
	}
	return true
}

// request asks for k permits at instant t (relative to the limiter's creation)
// with the given max wait (-1 = none). It returns the wait for the last permit,
// or -1 when the request is refused, in which case the state is unchanged.
func (m *rlModel) request(t time.Duration, k int, maxWait time.Duration) time.Duration {
	if k <= 0 {
		return 0
	}
	if m.p.Smooth {
		I := int64(m.p.Interval)
		cur := int64(t) / I
		first := cur
		if m.nextSlot > first {
			first = m.nextSlot
		}
		last := first + int64(k) - 1
		wait := time.Duration(last*I) - t
		if wait < 0 {
			wait = 0
		}
		if maxWait != -1 && wait > maxWait {
			return -1
		}
		m.nextSlot = last + 1
		return wait
	}
	P := int64(m.p.Period)
	N := int(m.p.MaxExec)
	q := int64(t) / P
	// forget periods before the current one
	if q > m.base {
		d := q - m.base
		if d >= int64(len(m.used)) {
			m.used = m.used[:0]
		} else {
			m.used = m.used[d:]
		}
		m.base = q
	}
	trial := append([]int(nil), m.used...)
	left := k
	lastQ := q
	for i := 0; left > 0; i++ {
		for i >= len(trial) {
			trial = append(trial, 0)
		}
		room := N - trial[i]
		if room > 0 {
			take := room
			if take > left {
				take = left
			}
			trial[i] += take
			left -= take
			lastQ = m.base + int64(i)
		}
	}
	wait := time.Duration(0)
	if lastQ > q {
		wait = time.Duration(lastQ*P) - t
	}
	if maxWait != -1 && wait > maxWait {
		return -1
	}
	m.used = trial
	return wait
}

// rlAlt is one admissible answer to a request together with the state it leaves.
type rlAlt struct {
	want time.Duration
	st   *rlModel
}

// requestAlts returns every admissible answer. There is one, except for a
// negative max wait (other than the "no limit" value -1) on a request that
// needs no waiting: the documentation refuses a request "whose wait would
// exceed the max wait", which a zero wait does for a negative max wait, but a
// request that needs no waiting at all may just as well be granted - the smooth
// and the bursty limiter differ here and both are accepted. A request that
// would have to wait must be refused.
func (m *rlModel) requestAlts(t time.Duration, k int, maxWait time.Duration) []rlAlt {
	c := m.clone()
	want := c.request(t, k, maxWait)
	alts := []rlAlt{{want, c}}
	if maxWait < -1 && want == -1 {
		g := m.clone()
		if w := g.request(t, k, -1); w == 0 {
			alts = append(alts, rlAlt{0, g})
		}
	}
	return alts
}
