package harness

import (
	"context"
	"fmt"
	"regexp"
	"strings"
	"testing"
	"testing/synctest"
	"time"

	"github.com/failsafe-go/failsafe-go"
	"github.com/failsafe-go/failsafe-go/cachepolicy"

	"dsim/simrt"
)

type ctxKey string

// RunResult is everything recorded about one simulated run.
type RunResult struct {
	Sc            *Scenario
	Log           *Log
	Out           *simrt.Outcome
	W             *World
	Sim           *simrt.Sim
	Survivors     []*simrt.Task
	Tasks         []*simrt.Task
	Timers        []*simrt.TimerRec
	PendingTimers []int          // indexes of library timers still pending after the grace period
	FreeBulkhead  map[int]int    // end of run: TryAcquirePermit successes per bulkhead instance
	BreakerEnd    map[int][2]int // end of run: breaker state and TryAcquirePermit successes while half-open
	AW            *adapterWorld
	BubblePanic   string
	Panics        []string
	SimTime       time.Duration
	Start         time.Time
}

var sawCancelErrs [256]error

func init() {
	for i := range sawCancelErrs {
		sawCancelErrs[i] = fmt.Errorf("%w (invocation %d)", errSawCancel, i)
	}
}

// runScenario executes sc in a fresh bubble under the given simulator config.
func runScenario(t *testing.T, sc *Scenario, cfg simrt.Config) (res *RunResult) {
	res = &RunResult{Sc: sc}
	sc.normalise()
	body := func(t *testing.T) {
		defer func() {
			if r := recover(); r != nil {
				res.BubblePanic = fmt.Sprint(r)
			}
		}()
		synctest.Test(t, func(t *testing.T) {
			log := newLog()
			res.Log = log
			sim := simrt.New(cfg)
			res.Sim = sim
			res.Start = sim.Start()
			w := &World{}
			if sc.Adapter != nil {
				w.sc, w.log = sc, log
				aw := &adapterWorld{log: log, spec: sc.Adapter}
				res.AW = aw
				sim.Spawn(1, func() { runAdapter(aw) })
			} else {
				w.build(sc, log)
				installInvariants(w, log)
				for ci := range sc.Clients {
					c := &sc.Clients[ci]
					sim.Spawn(0, func() { w.runClient(ci, c) })
				}
			}
			res.W = w
			res.Out = sim.Run()
			res.SimTime = res.Out.End.Sub(sim.Start())
			log.closed = true
			// end-of-run state of every execution copy handed to a layer (must be read inside the bubble)
			for i := range log.Ev {
				e := &log.Ev[i]
				if e.Kind == EvListener && e.L == LExecDone {
					// final statistics, read once everything has finished
					if info, ok := e.Ref.(failsafe.ExecutionInfo); ok && info != nil {
						e.Aux = []int{info.Attempts(), info.Executions(), info.Retries(), info.Hedges()}
					}
				}
				if e.Kind != EvProbeEnter {
					continue
				}
				if ex, ok := e.Ref.(failsafe.Execution[R]); ok && ex != nil {
					if ex.IsCanceled() {
						e.Flags |= FEndCanceled
					}
					select {
					case <-ex.Canceled():
						e.Flags |= FEndChanClosed
					default:
					}
					if ex.Context() != nil && ex.Context().Err() != nil {
						e.Flags |= FEndCtxErr
					}
				}
			}
			if sc.Adapter == nil {
				w.postRun(res)
			}
			// leak registry: pending timers
			res.Timers = sim.Timers()
			for i, tr := range res.Timers {
				if tr.T != nil && tr.T.Stop() {
					res.PendingTimers = append(res.PendingTimers, i)
				}
			}
			res.Survivors = sim.Survivors()
			for i := 0; i < sim.NumTasks(); i++ {
				tk := sim.TaskInfo(i)
				res.Tasks = append(res.Tasks, tk)
				if tk.PanicVal != nil {
					res.Panics = append(res.Panics, fmt.Sprintf("task %d (%s): %v\n%s", tk.ID, tk.CreateSite, tk.PanicVal, tk.PanicStack))
				}
			}
			// clean up so the bubble can exit: cancel every context we made, then reap parked tasks
			if len(res.Survivors) > 0 {
				sim.PoisonAll()
				for _, c := range w.cancels {
					if c != nil {
						c()
					}
				}
				if res.AW != nil {
					if res.AW.cancelReq != nil {
						res.AW.cancelReq()
					}
					if res.AW.cancelEx != nil {
						res.AW.cancelEx()
					}
				}
				for _, bh := range w.bhs {
					_ = bh
				}
				sim.Reap()
			}
		})
	}
	if simrt.RaceEnabled {
		// a race report makes the testing package fail the bubble's test with FailNow: confine that to a subtest
		t.Run("run", body)
	} else {
		body(t)
	}
	return res
}

func (w *World) runClient(ci int, c *Client) {
	held := 0 // bulkhead permits this client holds through the standalone API
	for oi := range c.Ops {
		op := &c.Ops[oi]
		if op.Kind == "bh.release" {
			if held == 0 {
				continue // its acquisition failed: nothing to give back
			}
			held--
		}
		switch op.Kind {
		case "bh.try", "bh.acquire_wait", "bh.acquire_ctx":
			before := w.log.lastSeq()
			w.runStandalone(op)
			if w.log.acquiredSince(before) {
				held++
			}
			continue
		}
		switch op.Kind {
		case "exec":
			w.runExec(op)
		case "sleep":
			d := op.Dur
			if d < 0 {
				// advance to the next boundary of a window slice of length -d, measured on the wall (fake unix) clock
				sl := int64(-d)
				now := time.Now().UnixNano()
				d = time.Duration(sl - now%sl)
				if op.N == 1 {
					d-- // one nanosecond before the boundary
				}
			}
			sleep(d)
		default:
			w.runStandalone(op)
		}
	}
}

// topLevel: with no executor listeners and no context the package-level helpers (failsafe.Run, Get, ...) are used
// instead of an Executor.
func topLevel(op *Op) bool { return op.NoExecListeners == 7 && op.Ctx == CtxNone }

func (w *World) policies(op *Op) []failsafe.Policy[R] {
	st := w.sc.Stacks[op.Stack]
	var pols []failsafe.Policy[R]
	for pos, pi := range st {
		if !w.sc.NoProbes {
			pols = append(pols, &probe{w: w, stack: op.Stack, pos: pos})
		}
		pols = append(pols, w.pols[pi])
	}
	if !w.sc.NoProbes {
		pols = append(pols, &probe{w: w, stack: op.Stack, pos: len(st)})
	}
	return pols
}

func (w *World) executor(op *Op) (failsafe.Executor[R], context.Context) {
	st := w.sc.Stacks[op.Stack]
	var pols []failsafe.Policy[R]
	for pos, pi := range st {
		if !w.sc.NoProbes {
			pols = append(pols, &probe{w: w, stack: op.Stack, pos: pos})
		}
		pols = append(pols, w.pols[pi])
	}
	if !w.sc.NoProbes {
		pols = append(pols, &probe{w: w, stack: op.Stack, pos: len(st)})
	}
	ex := failsafe.NewExecutor[R](pols...)
	done := func(l int) func(failsafe.ExecutionDoneEvent[R]) {
		return func(ev failsafe.ExecutionDoneEvent[R]) {
			simrt.Yield("listener")
			e := Event{Kind: EvListener, Pos: -1, L: l, Val: ev.Result, Err: ev.Error, Ref: ev.ExecutionInfo}
			snapInfo(&e, ev.ExecutionInfo)
			w.log.add(e)
		}
	}
	if op.NoExecListeners&1 == 0 {
		ex = ex.OnSuccess(done(LExecSuccess))
	}
	if op.NoExecListeners&2 == 0 {
		ex = ex.OnFailure(done(LExecFailure))
	}
	if op.NoExecListeners&4 == 0 {
		ex = ex.OnDone(done(LExecDone))
	}
	var ctx context.Context
	switch op.Ctx {
	case CtxBackground:
		ctx = context.Background()
	case CtxCancel:
		var cancel context.CancelFunc
		if op.CtxCause {
			var cc context.CancelCauseFunc
			ctx, cc = context.WithCancelCause(context.Background())
			cancel = func() { cc(errCause) }
		} else {
			ctx, cancel = context.WithCancel(context.Background())
		}
		w.cancels[op.ExecID] = cancel
	case CtxDeadline:
		var cancel context.CancelFunc
		if op.CtxCause {
			ctx, cancel = context.WithTimeoutCause(context.Background(), op.CtxD, errCause)
		} else {
			ctx, cancel = context.WithTimeout(context.Background(), op.CtxD)
		}
		w.cancels[op.ExecID] = cancel
	case CtxValue:
		ctx = context.WithValue(context.Background(), ctxKey("k"), "v")
		ctx = withCacheKey(ctx, op.CtxKey)
	case CtxCancelValue:
		var cancel context.CancelFunc
		ctx = context.WithValue(context.Background(), ctxKey("k"), "v")
		ctx = withCacheKey(ctx, op.CtxKey)
		if op.CtxCause {
			var cc context.CancelCauseFunc
			ctx, cc = context.WithCancelCause(ctx)
			cancel = func() { cc(errCause) }
		} else {
			ctx, cancel = context.WithCancel(ctx)
		}
		w.cancels[op.ExecID] = cancel
	}
	if ctx != nil {
		ex = ex.WithContext(ctx)
	}
	return ex, ctx
}

// userFn is the wrapped function: it follows the execution's script.
func (w *World) userFn(op *Op, exec failsafe.Execution[R]) (R, error) {
	id := op.ExecID
	n := w.nextFnCall(id)
	sc := &w.sc.Scripts[op.Script]
	idx := n
	if sc.ByAttempt && exec != nil {
		idx = exec.Attempts() - 1
	}
	if idx >= len(sc.Outcomes) {
		idx = len(sc.Outcomes) - 1
	}
	o := sc.Outcomes[idx]
	e := Event{Kind: EvFnStart, A: int64(n), B: int64(idx), Ref: exec}
	if exec != nil {
		snapAttempt(&e, exec)
		if exec.IsCanceled() {
			e.Flags |= FIsCanceled
		}
	}
	w.log.add(e)
	var res R = resVal(o.Result)
	err := errTable[o.Err]
	sawCancel := false
	if o.Dur > 0 {
		if exec == nil || o.Coop == CoopIgnore {
			sleep(o.Dur)
		} else {
			canceled := waitOrCancel(o.Dur, exec.Canceled(), "fn.wait")
			if canceled {
				sawCancel = true
				if o.Coop == CoopLate && o.IgnoreFor > 0 {
					sleep(o.IgnoreFor)
				}
				if o.Coop != CoopResult {
					res, err = nil, sawCancelErrs[n%len(sawCancelErrs)]
				}
			}
		}
	} else if o.Dur < 0 {
		// block until cancelled
		if exec != nil {
			t := simrt.BlockBegin("fn.block")
			<-exec.Canceled()
			simrt.BlockEnd(t)
			sawCancel = true
			res, err = nil, sawCancelErrs[n%len(sawCancelErrs)]
		}
	}
	x := Event{Kind: EvFnEnd, A: int64(n), B: int64(idx), Val: res, Err: err, Ref: exec}
	if exec != nil {
		snapAttempt(&x, exec)
		if exec.IsCanceled() {
			x.Flags |= FIsCanceled
		}
	}
	if sawCancel {
		x.L = 1
	}
	w.log.add(x)
	return res, err
}

func (w *World) runExec(op *Op) {
	simrt.SetTag(op.ExecID)
	ex, _ := w.executor(op)
	w.log.add(Event{Kind: EvOpStart, A: int64(op.Entry), B: int64(op.Stack)})
	opStart := simrt.Now()
	// context-cancellation source
	if op.CancelSrc == SrcCtxCancel && w.cancels[op.ExecID] != nil {
		w.spawnCanceller(op, opStart, func() { w.cancels[op.ExecID]() })
	}
	var res R
	var err error
	top := topLevel(op)
	var pols []failsafe.Policy[R]
	if top {
		pols = w.policies(op)
	}
	switch {
	case top && op.Entry == EnRun:
		err = failsafe.Run(func() error { _, e := w.userFn(op, nil); return e }, pols...)
	case top && op.Entry == EnRunExec:
		err = failsafe.RunWithExecution(func(exec failsafe.Execution[R]) error { _, e := w.userFn(op, exec); return e }, pols...)
	case top && op.Entry == EnGet:
		res, err = failsafe.Get(func() (R, error) { return w.userFn(op, nil) }, pols...)
	case top && op.Entry == EnGetExec:
		res, err = failsafe.GetWithExecution(func(exec failsafe.Execution[R]) (R, error) { return w.userFn(op, exec) }, pols...)
	}
	switch {
	case top && !entryAsync(op.Entry):
	case op.Entry == EnRun:
		err = ex.Run(func() error { _, e := w.userFn(op, nil); return e })
	case op.Entry == EnRunExec:
		err = ex.RunWithExecution(func(exec failsafe.Execution[R]) error { _, e := w.userFn(op, exec); return e })
	case op.Entry == EnGet:
		res, err = ex.Get(func() (R, error) { return w.userFn(op, nil) })
	case op.Entry == EnGetExec:
		res, err = ex.GetWithExecution(func(exec failsafe.Execution[R]) (R, error) { return w.userFn(op, exec) })
	default:
		var er failsafe.ExecutionResult[R]
		switch {
		case top && op.Entry == EnRunAsync:
			er = failsafe.RunAsync(func() error { _, e := w.userFn(op, nil); return e }, pols...)
		case top && op.Entry == EnRunExecAsync:
			er = failsafe.RunWithExecutionAsync(func(exec failsafe.Execution[R]) error { _, e := w.userFn(op, exec); return e }, pols...)
		case top && op.Entry == EnGetAsync:
			er = failsafe.GetAsync(func() (R, error) { return w.userFn(op, nil) }, pols...)
		case top:
			er = failsafe.GetWithExecutionAsync(func(exec failsafe.Execution[R]) (R, error) { return w.userFn(op, exec) }, pols...)
		case op.Entry == EnRunAsync:
			er = ex.RunAsync(func() error { _, e := w.userFn(op, nil); return e })
		case op.Entry == EnRunExecAsync:
			er = ex.RunWithExecutionAsync(func(exec failsafe.Execution[R]) error { _, e := w.userFn(op, exec); return e })
		case op.Entry == EnGetAsync:
			er = ex.GetAsync(func() (R, error) { return w.userFn(op, nil) })
		default:
			er = ex.GetWithExecutionAsync(func(exec failsafe.Execution[R]) (R, error) { return w.userFn(op, exec) })
		}
		w.results[op.ExecID] = er
		if op.CancelSrc == SrcResultCancel {
			w.spawnCanceller(op, opStart, func() { er.Cancel() })
		}
		if op.ProbeStep > 0 {
			probe := []ReaderOp{{Kind: RdIsDone}, {Kind: RdDonePoll}, {Kind: RdIsDone}, {Kind: RdDonePoll}}
			simrt.S.SpawnHeld(op.ExecID, op.ProbeStep, true, func() { w.runReader(op, er, 99, probe) })
		}
		for ri, rd := range op.Readers {
			rd := rd
			ri := ri
			simrt.S.Spawn(op.ExecID, func() { w.runReader(op, er, ri, rd) })
		}
		if op.NoWait {
			return
		}
		t := simrt.BlockBegin("client.waitDone")
		<-er.Done()
		simrt.BlockEnd(t)
		res, err = er.Get()
	}
	w.log.add(Event{Kind: EvOpEnd, A: int64(op.Entry), B: int64(op.Stack), Val: res, Err: err})
}

func (w *World) spawnCanceller(op *Op, opStart time.Duration, fire func()) {
	body := func() {
		if op.CancelStep == 0 {
			d := opStart + op.CancelAt - simrt.Now()
			if d > 0 {
				sleep(d)
			} else {
				simrt.Yield("canceller")
			}
		}
		w.log.add(Event{Kind: EvCancel, A: int64(op.CancelSrc), Exec: op.ExecID})
		fire()
		w.log.add(Event{Kind: EvCancel, A: int64(op.CancelSrc), B: 1, Exec: op.ExecID})
	}
	if op.CancelStep > 0 {
		simrt.S.SpawnHeld(op.ExecID, op.CancelStep, true, body)
	} else {
		simrt.S.Spawn(op.ExecID, body)
	}
}

func (w *World) runReader(op *Op, er failsafe.ExecutionResult[R], ri int, ops []ReaderOp) {
	for i, r := range ops {
		if r.Wait > 0 {
			sleep(r.Wait)
		} else {
			simrt.Yield("reader")
		}
		e := Event{Kind: EvAsync, Pos: ri, L: r.Kind, A: int64(i)}
		// invocation
		inv := w.log.add(Event{Kind: EvAsync, Pos: ri, L: r.Kind, A: int64(i), B: 0})
		_ = inv
		switch r.Kind {
		case RdIsDone:
			if er.IsDone() {
				e.Flags |= FDone
			}
		case RdDonePoll:
			select {
			case <-er.Done():
				e.Flags |= FDone
			default:
			}
		case RdDoneWait:
			t := simrt.BlockBegin("reader.Done")
			<-er.Done()
			simrt.BlockEnd(t)
			e.Flags |= FDone
		case RdGet:
			e.Val, e.Err = er.Get() // blocks inside instrumented library code
			e.Flags |= FDone
		case RdResult:
			e.Val = er.Result()
			e.Flags |= FDone
		case RdError:
			e.Err = er.Error()
			e.Flags |= FDone
		case RdCancel:
			er.Cancel()
		}
		e.B = 1
		w.log.add(e)
	}
}

func (w *World) runStandalone(op *Op) {
	// filled in by standalone.go
	w.standalone(op)
}

// ---- formatting -------------------------------------------------------------

func fmtVal(v any) string {
	if v == nil {
		return "nil"
	}
	return fmt.Sprint(v)
}

var ptrRe = regexp.MustCompile(`0x[0-9a-f]{6,}`)

func fmtErr(err error) string {
	if err == nil {
		return "nil"
	}
	return ptrRe.ReplaceAllString(err.Error(), "0xPTR") // addresses differ between processes
}

func (e *Event) String() string {
	var b strings.Builder
	fmt.Fprintf(&b, "#%d step=%d t=%v task=%d exec=%d ", e.Seq, e.Step, e.T, e.Task, e.Exec)
	switch e.Kind {
	case EvOpStart:
		fmt.Fprintf(&b, "op.start entry=%d stack=%d", e.A, e.B)
	case EvOpEnd:
		fmt.Fprintf(&b, "op.end -> (%s, %s)", fmtVal(e.Val), fmtErr(e.Err))
	case EvProbeEnter:
		fmt.Fprintf(&b, "probe[%d] enter", e.Pos)
	case EvProbeExit:
		fmt.Fprintf(&b, "probe[%d] exit -> (%s, %s) done=%v success=%v successAll=%v", e.Pos, fmtVal(e.Val), fmtErr(e.Err), e.Flags&FDone != 0, e.Flags&FSuccess != 0, e.Flags&FSuccessAll != 0)
	case EvFnStart:
		fmt.Fprintf(&b, "fn.start inv=%d script=%d", e.A, e.B)
	case EvFnEnd:
		fmt.Fprintf(&b, "fn.end inv=%d -> (%s, %s)", e.A, fmtVal(e.Val), fmtErr(e.Err))
	case EvListener:
		fmt.Fprintf(&b, "listener %s pol=%d", listenerNames[e.L], e.Pos)
		if e.L == LRetryScheduled {
			fmt.Fprintf(&b, " delay=%v", time.Duration(e.A))
		}
		if e.L >= LBrOpen && e.L <= LBrStateChanged {
			fmt.Fprintf(&b, " %d->%d", e.A, e.B)
		}
		if e.Val != nil || e.Err != nil {
			fmt.Fprintf(&b, " (%s, %s)", fmtVal(e.Val), fmtErr(e.Err))
		}
	case EvFallbackFn:
		fmt.Fprintf(&b, "fallback.fn pol=%d", e.Pos)
	case EvFallbackFnEnd:
		fmt.Fprintf(&b, "fallback.fn.end pol=%d", e.Pos)
	case EvDelayFn:
		fmt.Fprintf(&b, "delayfn pol=%d -> %v", e.Pos, time.Duration(e.A))
	case EvCacheGet:
		fmt.Fprintf(&b, "cache.get pol=%d key=%q found=%d val=%s", e.Pos, e.Str, e.A, fmtVal(e.Val))
	case EvCacheSet:
		fmt.Fprintf(&b, "cache.set pol=%d key=%q val=%s", e.Pos, e.Str, fmtVal(e.Val))
	case EvCancel:
		fmt.Fprintf(&b, "cancel src=%d phase=%d", e.A, e.B)
	case EvAsync:
		fmt.Fprintf(&b, "reader[%d] op=%d kind=%d phase=%d done=%v (%s, %s)", e.Pos, e.A, e.L, e.B, e.Flags&FDone != 0, fmtVal(e.Val), fmtErr(e.Err))
	case EvStandalone:
		fmt.Fprintf(&b, "standalone %s pol=%d a=%d b=%d", e.Str, e.Pos, e.A, e.B)
	case EvNote:
		fmt.Fprintf(&b, "note %s", e.Str)
	case EvAdapter:
		switch e.L {
		case AdAttempt:
			fmt.Fprintf(&b, "attempt %d received", e.A)
			if e.B != 0 {
				fmt.Fprintf(&b, " WRONG: %s %s", problemText(e.B), e.Str)
			}
		case AdAttemptEnd:
			fmt.Fprintf(&b, "attempt %d answered status/code=%d err=%s", e.A, e.B, fmtErr(e.Err))
		case AdReturn:
			fmt.Fprintf(&b, "call returned status/reply=%d from attempt %d err=%s", e.A, e.B, fmtErr(e.Err))
		case AdBodyRead:
			fmt.Fprintf(&b, "caller read %d of %d body bytes err=%s", e.A, e.B, fmtErr(e.Err))
		case AdBodyClose:
			fmt.Fprintf(&b, "response body of attempt %d closed", e.A)
		case AdCallerCancel:
			fmt.Fprintf(&b, "caller cancels its context")
		}
	}
	if e.Flags&FHasExec != 0 {
		fmt.Fprintf(&b, " [att=%d exe=%d ret=%d hed=%d last=(%s,%s)]", e.Attempts, e.Executions, e.Retries, e.Hedges, fmtVal(e.LastVal), fmtErr(e.LastErr))
	}
	if e.Flags&FIsCanceled != 0 {
		b.WriteString(" canceled")
	}
	return b.String()
}

func (r *RunResult) traceText(max int) []string {
	var out []string
	if r.Log == nil {
		return out
	}
	for i := range r.Log.Ev {
		if max > 0 && i >= max {
			out = append(out, "...")
			break
		}
		out = append(out, r.Log.Ev[i].String())
	}
	return out
}

// postRun probes the stateful policies after quiescence (inside the bubble).
func (w *World) postRun(res *RunResult) {
	res.FreeBulkhead = map[int]int{}
	res.BreakerEnd = map[int][2]int{}
	if len(res.Sim.Survivors()) > 0 {
		return // something is still running or stuck: reported by the leak/progress oracles
	}
	for i, bh := range w.bhs {
		if bh == nil {
			continue
		}
		n := 0
		for n < 64 && bh.TryAcquirePermit() {
			n++
		}
		res.FreeBulkhead[i] = n
	}
	for i, br := range w.brs {
		if br == nil {
			continue
		}
		st := int(br.State())
		n := 0
		if st == 2 {
			for n < 64 && br.TryAcquirePermit() {
				n++
			}
		}
		res.BreakerEnd[i] = [2]int{st, n}
	}
}

//go:norace
func (w *World) nextFnCall(id int) int {
	n := w.fnCalls[id]
	w.fnCalls[id]++
	return n
}

//go:norace
func (w *World) nextDelayCall(pol int) int {
	n := w.delayCalls[pol]
	w.delayCalls[pol]++
	return n
}

// Context cache keys: "" = none, KeyEmpty = an empty string key, KeyNonString = a value that is not a string.
const (
	KeyEmpty     = "<empty>"
	KeyNonString = "<nonstring>"
)

func withCacheKey(ctx context.Context, k string) context.Context {
	switch k {
	case "":
		return ctx
	case KeyEmpty:
		return context.WithValue(ctx, cachepolicy.CacheKey, "")
	case KeyNonString:
		return context.WithValue(ctx, cachepolicy.CacheKey, 42)
	}
	return context.WithValue(ctx, cachepolicy.CacheKey, k)
}

// effectiveCacheKey is the documented key rule: a string key supplied through the context takes precedence.
func effectiveCacheKey(configured string, op *Op) string {
	if op.Ctx != CtxValue && op.Ctx != CtxCancelValue {
		return configured
	}
	switch op.CtxKey {
	case "", KeyNonString:
		return configured
	case KeyEmpty:
		return ""
	}
	return op.CtxKey
}
