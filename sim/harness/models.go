package harness

import (
	"context"
	"errors"
	"fmt"
	"reflect"
	"time"

	"github.com/failsafe-go/failsafe-go/bulkhead"
	"github.com/failsafe-go/failsafe-go/circuitbreaker"
	"github.com/failsafe-go/failsafe-go/ratelimiter"
	"github.com/failsafe-go/failsafe-go/retrypolicy"
	"github.com/failsafe-go/failsafe-go/timeout"
)

// ---- shared classifier (documented handle-condition rules) -------------------

const (
	No = iota
	Yes
	Either
)

func matchErrType(err error, t int) bool {
	if err == nil {
		return false
	}
	switch t {
	case TVal:
		var v valErr
		return errors.As(err, &v)
	default:
		var p *ptrErr
		return errors.As(err, &p)
	}
}

// condMatches reports whether some condition of c matches the outcome. The
// second result is true when the only match is a HandleResult value on an
// outcome that also carries an error: the documentation says result conditions
// are considered only when no error is returned, the conditions themselves
// compare the result regardless, so either reading is accepted.
func condMatches(c Cond, val any, err error) (match bool, onlyResultWithErr bool) {
	for _, e := range c.Errors {
		if err != nil && errors.Is(err, errTable[e]) {
			return true, false
		}
	}
	for _, t := range c.ErrTypes {
		if matchErrType(err, t) {
			return true, false
		}
	}
	for _, p := range c.Preds {
		if predFn(p)(val, err) {
			return true, false
		}
	}
	for _, r := range c.Results {
		if reflect.DeepEqual(val, resVal(r)) {
			if err != nil {
				return true, true
			}
			return true, false
		}
	}
	return false, false
}

// isFailure is the documented failure classification.
func isFailure(c Cond, val any, err error) int {
	if c.empty() {
		if err != nil {
			return Yes
		}
		return No
	}
	m, amb := condMatches(c, val, err)
	errorsChecked := len(c.Errors) > 0 || len(c.ErrTypes) > 0 || len(c.Preds) > 0
	if m && !amb {
		return Yes
	}
	if err != nil && !errorsChecked {
		return Yes
	}
	if m && amb {
		return Either
	}
	return No
}

// anyMatch is the abort / cancel condition rule (any match).
func anyMatch(c Cond, val any, err error) int {
	m, amb := condMatches(c, val, err)
	if m && amb {
		return Either
	}
	if m {
		return Yes
	}
	return No
}

// ---- model evaluation over the call tree ------------------------------------

// mres is what a model says a layer returned.
type mres struct {
	ok      bool // the model could decide (false = skipped: ambiguity or cancellation path)
	verdict bool // all layers from here inwards consider the result a success
}

// modelCtx carries per-execution model state (state of per-execution policy executors).
type modelCtx struct {
	c                   *checkCtx
	v                   *ExecView
	sc                  *Scenario
	prefix              string              // oracle id prefix
	retrySt             map[int]*retryState // by stack position
	hedgeAbove          map[int]bool
	strictFlags         bool
	rootFallbackApplied bool
	allow               []string // oracle-id prefixes this property reports (nil = all)
}

type retryState struct {
	failures int
	exceeded bool
	unknown  bool
}

func (m *modelCtx) fail(oracle, sig, msg string) {
	if m.allow != nil {
		ok := false
		for _, a := range m.allow {
			if len(oracle) >= len(a) && oracle[:len(a)] == a {
				ok = true
			}
		}
		if !ok {
			m.c.cov("model.other_property_failure." + oracle)
			return
		}
	}
	m.c.fail(m.prefix+oracle, sig, fmt.Sprintf("exec %d: %s", m.v.ID, msg))
}

func outcomeStr(e *Event) string {
	if e == nil {
		return "<no return>"
	}
	return fmt.Sprintf("(%s, %s)", fmtVal(e.Val), fmtErr(e.Err))
}

func flagsVerdict(e *Event) bool { return e.Flags&FSuccessAll != 0 }

// evalNode checks node n against the local model of the policy at its
// position and returns the model's verdict for it.
func (m *modelCtx) evalNode(n *Node) mres {
	if n.Exit == nil {
		return mres{}
	}
	p := m.v.policyAt(m.sc, n.Pos)
	if p == nil {
		// innermost: the function wrapper
		if n.FnEnd != nil {
			exp := n.FnEnd
			val := exp.Val
			if !entryIsGet(m.v.Op.Entry) {
				val = nil // Run variants discard the result value
			}
			if !sameOutcome(n.Exit.Val, n.Exit.Err, val, exp.Err) {
				m.fail("fn.result", "fn", fmt.Sprintf("function returned (%s, %s) but the innermost layer reported %s", fmtVal(val), fmtErr(exp.Err), outcomeStr(n.Exit)))
			}
		}
		return mres{ok: true, verdict: true}
	}
	switch p.Kind {
	case KRetry:
		return m.evalRetry(n, p)
	case KFallback:
		return m.evalFallback(n, p)
	case KTimeout:
		return m.evalTimeout(n, p)
	case KBreaker:
		return m.evalBreaker(n, p)
	case KLimiter:
		return m.evalGate(n, p, ratelimiter.ErrExceeded, "limiter")
	case KBulkhead:
		return m.evalGate(n, p, bulkhead.ErrFull, "bulkhead")
	case KCache:
		return m.evalCache(n, p)
	case KHedge:
		return m.evalHedge(n, p)
	}
	return mres{}
}

func (m *modelCtx) children(n *Node) []mres {
	out := make([]mres, len(n.Children))
	for i, ch := range n.Children {
		out[i] = m.evalNode(ch)
	}
	return out
}

func canceledAt(e *Event) bool { return e != nil && e.Flags&FIsCanceled != 0 }

// passThrough checks that the layer returned its child's outcome unchanged.
func (m *modelCtx) passThrough(n *Node, ch *Node, what string) bool {
	if ch.Exit == nil {
		return false
	}
	if !sameOutcome(n.Exit.Val, n.Exit.Err, ch.Exit.Val, ch.Exit.Err) {
		m.fail(what+".passthrough", what, fmt.Sprintf("%s at position %d returned %s but the layer inside it returned %s, which it does not handle", what, n.Pos, outcomeStr(n.Exit), outcomeStr(ch.Exit)))
		return false
	}
	return true
}

// ---- retry ------------------------------------------------------------------

func isExceededErr(err error, val any, last error) bool {
	var ee retrypolicy.ExceededError
	if !errors.As(err, &ee) {
		return false
	}
	return errors.Is(err, retrypolicy.ErrExceeded) && reflect.DeepEqual(ee.LastResult, val) && sameErr(ee.LastError, last)
}

func (m *modelCtx) evalRetry(n *Node, p *PolicySpec) mres {
	kids := m.children(n)
	st := m.retrySt[n.Pos]
	if st == nil {
		st = &retryState{}
		m.retrySt[n.Pos] = st
	}
	if m.hedgeAbove[n.Pos] {
		// the per-execution retry state is shared by concurrent hedge attempts: not modelled
		m.c.cov("model.retry.skipped_under_hedge")
		st.unknown = true
		return mres{}
	}
	if st.unknown {
		return mres{}
	}
	// budget bound holds whatever else happens
	budget := p.MaxRetries
	if budget >= 0 && len(n.Children) > budget+1 {
		m.fail("retry.budget", "over-budget", fmt.Sprintf("retry policy with maxRetries=%d invoked the layer inside it %d times in one call", budget, len(n.Children)))
	}
	if canceledAt(n.Exit) || canceledAt(n.Enter) {
		m.c.cov("model.retry.canceled_path")
		st.unknown = true
		return mres{}
	}
	start := m.v.OpStart.T
	for _, e := range m.v.Events {
		if e.Flags&FHasExec != 0 {
			start = e.Start // the execution's own StartTime (later than the call if the caller was descheduled on the way)
			break
		}
	}
	n.Class = make([]int, len(n.Children))
	for i := range n.Class {
		n.Class[i] = -1
	}
	for i, ch := range n.Children {
		if ch.Exit == nil {
			st.unknown = true
			return mres{}
		}
		last := i == len(n.Children)-1
		val, err := ch.Exit.Val, ch.Exit.Err
		if st.exceeded {
			n.Modelled = last
			// retries already exceeded earlier in this execution: results pass through
			m.c.cov("model.retry.exhausted_inner_reentered")
			if !last {
				m.fail("retry.reinvoke", "after-exceeded", fmt.Sprintf("retry policy at position %d re-invoked the inner layer although its retries were already exceeded", n.Pos))
				return mres{}
			}
			m.passThrough(n, ch, "retry")
			return mres{ok: kids[i].ok, verdict: kids[i].verdict}
		}
		f := isFailure(p.Handle, val, err)
		if f == Either {
			m.c.cov("ambiguous.classify")
			st.unknown = true
			return mres{}
		}
		n.Class[i] = f
		if f == No {
			n.Modelled = last
			if !last {
				m.fail("retry.reinvoke", "after-success", fmt.Sprintf("retry policy at position %d re-invoked the inner layer after the non-failure outcome %s", n.Pos, outcomeStr(ch.Exit)))
				return mres{}
			}
			m.passThrough(n, ch, "retry")
			return mres{ok: kids[i].ok, verdict: kids[i].verdict}
		}
		// failure
		st.failures++
		overCount := p.MaxRetries != -1 && st.failures > p.MaxRetries
		elapsed := ch.Exit.T - start
		overDur, durAmb := false, false
		if p.MaxDuration != 0 {
			// the policy reads the elapsed time when it handles the failure: between the inner call's return and
			// the next thing this task is seen doing (the two differ only if the task was descheduled in between)
			later := ch.Exit.T
			for _, e := range m.v.Events {
				if e.Task == n.Task && e.Seq > ch.Exit.Seq && (e.Kind != EvListener || e.L != LPolFailure) {
					later = e.T
					break
				}
			}
			elapsedLater := later - start
			overDur = elapsed > p.MaxDuration
			durAmb = elapsed == p.MaxDuration || (!overDur && elapsedLater >= p.MaxDuration)
			elapsed = elapsedLater
		}
		ab := No
		if !p.Abort.empty() {
			ab = anyMatch(p.Abort, val, err)
		}
		if ab == Either || (durAmb && !overCount) {
			m.c.cov("ambiguous.retry")
			st.unknown = true
			return mres{}
		}
		exceeded := overCount || overDur
		st.exceeded = exceeded
		if ab == Yes || exceeded {
			n.Exceeded, n.Aborted, n.Modelled = exceeded, ab == Yes, last
			if !last {
				why := "an abort-matching outcome"
				if ab != Yes {
					why = fmt.Sprintf("its retries were exceeded (failures=%d maxRetries=%d elapsed=%v maxDuration=%v)", st.failures, p.MaxRetries, elapsed, p.MaxDuration)
				}
				m.fail("retry.reinvoke", "after-stop", fmt.Sprintf("retry policy at position %d re-invoked the inner layer after %s: %s", n.Pos, why, outcomeStr(ch.Exit)))
				return mres{}
			}
			plain := sameOutcome(n.Exit.Val, n.Exit.Err, val, err)
			wrapped := n.Exit.Val == nil && isExceededErr(n.Exit.Err, val, err)
			switch {
			case exceeded && ab == Yes:
				// gives up and aborts at once: either form
				if !plain && !wrapped {
					m.fail("retry.result", "final", fmt.Sprintf("retry policy at position %d stopped on %s (abort and exceeded) but returned %s", n.Pos, outcomeStr(ch.Exit), outcomeStr(n.Exit)))
				}
			case exceeded && p.ReturnLast:
				if !plain {
					m.fail("retry.result", "return-last", fmt.Sprintf("retry policy (ReturnLastFailure) at position %d exceeded on %s but returned %s", n.Pos, outcomeStr(ch.Exit), outcomeStr(n.Exit)))
				}
			case exceeded:
				if !wrapped {
					m.fail("retry.result", "exceeded-error", fmt.Sprintf("retry policy at position %d exceeded on %s and must return ExceededError carrying that outcome, but returned %s", n.Pos, outcomeStr(ch.Exit), outcomeStr(n.Exit)))
				}
			default:
				if !plain {
					m.fail("retry.result", "abort", fmt.Sprintf("retry policy at position %d aborted on %s but returned %s", n.Pos, outcomeStr(ch.Exit), outcomeStr(n.Exit)))
				}
			}
			return mres{ok: true, verdict: false}
		}
		// must retry
		if last {
			m.fail("retry.stop", "early", fmt.Sprintf("retry policy at position %d stopped after failure %d of maxRetries=%d on %s (not abortable, not exceeded) and returned %s", n.Pos, st.failures, p.MaxRetries, outcomeStr(ch.Exit), outcomeStr(n.Exit)))
			return mres{}
		}
	}
	if len(n.Children) == 0 {
		m.fail("retry.noinvoke", "none", fmt.Sprintf("retry policy at position %d returned %s without invoking the layer inside it", n.Pos, outcomeStr(n.Exit)))
	}
	return mres{}
}

// ---- fallback -----------------------------------------------------------------

func (m *modelCtx) evalFallback(n *Node, p *PolicySpec) mres {
	kids := m.children(n)
	if len(n.Children) != 1 {
		m.fail("fallback.calls", "count", fmt.Sprintf("fallback at position %d invoked the layer inside it %d times", n.Pos, len(n.Children)))
		return mres{}
	}
	ch := n.Children[0]
	if ch.Exit == nil {
		return mres{}
	}
	val, err := ch.Exit.Val, ch.Exit.Err
	f := isFailure(p.Handle, val, err)
	// fallback applications inside this node
	var fbStarts []*Event
	var executed []*Event
	for _, e := range m.v.Events {
		if e.Seq < n.Enter.Seq || e.Seq > n.Exit.Seq || e.Task != n.Task {
			continue
		}
		if e.Kind == EvFallbackFn && e.Pos == m.v.Stack[n.Pos] {
			fbStarts = append(fbStarts, e)
		}
		if e.Kind == EvListener && e.L == LFallbackExecuted && e.Pos == m.v.Stack[n.Pos] {
			executed = append(executed, e)
		}
	}
	repeated := false
	for pos, pi := range m.v.Stack {
		if pos != n.Pos && pi == m.v.Stack[n.Pos] {
			repeated = true
		}
	}
	if f == Either {
		m.c.cov("ambiguous.classify")
		return mres{}
	}
	n.Class = []int{f}
	if f == No {
		n.Modelled = true
		m.passThrough(n, ch, "fallback")
		if !repeated && (len(fbStarts) > 0 || len(executed) > 0) {
			m.fail("fallback.applied", "on-success", fmt.Sprintf("fallback at position %d was applied to %s, which is not a failure by its conditions", n.Pos, outcomeStr(ch.Exit)))
		}
		return mres{ok: kids[0].ok, verdict: kids[0].verdict}
	}
	if canceledAt(n.Exit) || canceledAt(ch.Exit) {
		m.c.cov("model.fallback.canceled_path")
		return mres{}
	}
	m.c.cov("model.fallback.applied")
	n.Applied, n.Modelled = true, true
	if n.Pos == 0 {
		m.rootFallbackApplied = true
	}
	outVal, outErr := fbValue(p), errTable[p.FbErr]
	if p.FbKind == 0 {
		outErr = nil
	}
	if !sameOutcome(n.Exit.Val, n.Exit.Err, outVal, outErr) {
		m.fail("fallback.result", "output", fmt.Sprintf("fallback at position %d handles %s and must return its own output (%s, %s) but returned %s", n.Pos, outcomeStr(ch.Exit), fmtVal(outVal), fmtErr(outErr), outcomeStr(n.Exit)))
	}
	if !repeated {
		if p.FbKind == 2 {
			if len(fbStarts) != 1 {
				m.fail("fallback.once", "fn-count", fmt.Sprintf("fallback function at position %d ran %d times for one handled failure", n.Pos, len(fbStarts)))
			} else if fe := fbStarts[0]; !sameOutcome(fe.LastVal, fe.LastErr, val, err) {
				m.fail("fallback.last", "last-result", fmt.Sprintf("fallback function at position %d saw LastResult/LastError (%s, %s) instead of the failed outcome %s", n.Pos, fmtVal(fe.LastVal), fmtErr(fe.LastErr), outcomeStr(ch.Exit)))
			}
		}
		if len(executed) != 1 {
			m.fail("fallback.once", "event-count", fmt.Sprintf("OnFallbackExecuted fired %d times for one handled failure at position %d", len(executed), n.Pos))
		}
	}
	s := isFailure(p.Handle, outVal, outErr)
	if s == Either {
		m.c.cov("ambiguous.classify")
		return mres{}
	}
	return mres{ok: true, verdict: s == No}
}

// ---- timeout ------------------------------------------------------------------

func (m *modelCtx) evalTimeout(n *Node, p *PolicySpec) mres {
	kids := m.children(n)
	if len(n.Children) != 1 {
		m.fail("timeout.calls", "count", fmt.Sprintf("timeout at position %d invoked the layer inside it %d times", n.Pos, len(n.Children)))
		return mres{}
	}
	ch := n.Children[0]
	elapsed := n.Exit.T - n.Enter.T
	isExc := n.Exit.Val == nil && n.Exit.Err == timeout.ErrExceeded
	childSame := ch.Exit != nil && ch.Exit.Val == nil && ch.Exit.Err == timeout.ErrExceeded
	if isExc && !childSame {
		// the Timeout's own ErrExceeded
		if elapsed < p.Limit {
			m.fail("timeout.early", "early", fmt.Sprintf("timeout at position %d with limit %v produced ErrExceeded after only %v", n.Pos, p.Limit, elapsed))
		}
		return mres{ok: true, verdict: false}
	}
	if isExc {
		// an inner Timeout's ErrExceeded passed through, or this one fired as well: a failure either way
		return mres{ok: true, verdict: false}
	}
	if ch.Exit == nil {
		m.fail("timeout.result", "no-inner", fmt.Sprintf("timeout at position %d returned %s although the layer inside it had not returned", n.Pos, outcomeStr(n.Exit)))
		return mres{}
	}
	if !m.passThrough(n, ch, "timeout") {
		return mres{}
	}
	if errors.Is(ch.Exit.Err, timeout.ErrExceeded) {
		// Timeout classifies anything that is ErrExceeded as its failure
		return mres{ok: true, verdict: false}
	}
	return mres{ok: kids[0].ok, verdict: kids[0].verdict}
}

// ---- breaker (admission is checked by the breaker state model elsewhere) ------

func (m *modelCtx) evalBreaker(n *Node, p *PolicySpec) mres {
	kids := m.children(n)
	if len(n.Children) == 0 {
		if !(n.Exit.Val == nil && errors.Is(n.Exit.Err, circuitbreaker.ErrOpen)) {
			m.fail("breaker.reject", "not-erropen", fmt.Sprintf("circuit breaker at position %d did not invoke the layer inside it but returned %s instead of ErrOpen", n.Pos, outcomeStr(n.Exit)))
		}
		m.c.cov("model.breaker.rejected")
		return mres{ok: true, verdict: false}
	}
	if len(n.Children) > 1 {
		m.fail("breaker.calls", "count", fmt.Sprintf("circuit breaker at position %d invoked the layer inside it %d times", n.Pos, len(n.Children)))
		return mres{}
	}
	ch := n.Children[0]
	if ch.Exit == nil || !m.passThrough(n, ch, "breaker") {
		return mres{}
	}
	f := isFailure(p.Handle, ch.Exit.Val, ch.Exit.Err)
	n.Class = []int{f}
	if f == Either {
		m.c.cov("ambiguous.classify")
		return mres{}
	}
	n.Modelled = true
	if f == Yes {
		return mres{ok: true, verdict: false}
	}
	return mres{ok: kids[0].ok, verdict: kids[0].verdict}
}

// ---- limiter / bulkhead ---------------------------------------------------------

func (m *modelCtx) evalGate(n *Node, p *PolicySpec, rejectErr error, what string) mres {
	kids := m.children(n)
	if len(n.Children) == 0 {
		ok := n.Exit.Val == nil && n.Exit.Err != nil && (errors.Is(n.Exit.Err, rejectErr) || canceledAt(n.Exit) || errors.Is(n.Exit.Err, context.Canceled) || errors.Is(n.Exit.Err, context.DeadlineExceeded))
		if !ok {
			m.fail(what+".reject", "error", fmt.Sprintf("%s at position %d did not invoke the layer inside it but returned %s", what, n.Pos, outcomeStr(n.Exit)))
		}
		m.c.cov("model." + what + ".rejected")
		return mres{ok: true, verdict: false}
	}
	if len(n.Children) > 1 {
		m.fail(what+".calls", "count", fmt.Sprintf("%s at position %d invoked the layer inside it %d times", what, n.Pos, len(n.Children)))
		return mres{}
	}
	ch := n.Children[0]
	if ch.Exit == nil || !m.passThrough(n, ch, what) {
		return mres{}
	}
	return mres{ok: kids[0].ok, verdict: kids[0].verdict}
}

// ---- cache --------------------------------------------------------------------

func (m *modelCtx) evalCache(n *Node, p *PolicySpec) mres {
	kids := m.children(n)
	pol := m.v.Stack[n.Pos]
	var gets, sets []*Event
	for _, e := range m.v.Events {
		if e.Seq < n.Enter.Seq || e.Seq > n.Exit.Seq || e.Task != n.Task || e.Pos != pol {
			continue
		}
		if e.Kind == EvCacheGet {
			gets = append(gets, e)
		}
		if e.Kind == EvCacheSet {
			sets = append(sets, e)
		}
	}
	repeated := false
	for pos, pi := range m.v.Stack {
		if pos != n.Pos && pi == pol {
			repeated = true
		}
	}
	key := effectiveCacheKey(p.Key, m.v.Op)
	if repeated {
		// the same cache policy appears twice in the stack: reads/writes of the two layers interleave
		if len(n.Children) == 1 && n.Children[0].Exit != nil {
			m.passThrough(n, n.Children[0], "cache")
			return mres{ok: kids[0].ok, verdict: kids[0].verdict}
		}
		return mres{}
	}
	if key == "" {
		if len(gets)+len(sets) > 0 {
			m.fail("cache.nokey", "touched", fmt.Sprintf("cache policy at position %d read or wrote the cache although no key is in effect", n.Pos))
		}
	} else {
		if len(gets) != 1 || gets[0].Str != key {
			m.fail("cache.get", "key", fmt.Sprintf("cache policy at position %d must look up key %q exactly once; lookups: %d (key %q)", n.Pos, key, len(gets), firstStr(gets)))
			return mres{}
		}
		if gets[0].A == 1 {
			// hit
			m.c.cov("model.cache.hit")
			if len(n.Children) != 0 {
				m.fail("cache.hit", "inner-invoked", fmt.Sprintf("cache policy at position %d had a hit for key %q but still invoked the layer inside it", n.Pos, key))
			}
			if !sameOutcome(n.Exit.Val, n.Exit.Err, gets[0].Val, nil) {
				m.fail("cache.hit", "value", fmt.Sprintf("cache policy at position %d had a hit (%s) for key %q but returned %s", n.Pos, fmtVal(gets[0].Val), key, outcomeStr(n.Exit)))
			}
			if len(sets) != 0 {
				m.fail("cache.hit", "set", fmt.Sprintf("cache policy at position %d wrote the cache on a hit", n.Pos))
			}
			return mres{ok: true, verdict: true}
		}
	}
	// miss (or no key)
	if len(n.Children) != 1 {
		m.fail("cache.miss", "calls", fmt.Sprintf("cache policy at position %d invoked the layer inside it %d times on a miss", n.Pos, len(n.Children)))
		return mres{}
	}
	ch := n.Children[0]
	if ch.Exit == nil || !m.passThrough(n, ch, "cache") {
		return mres{}
	}
	if key != "" {
		cacheable := ch.Exit.Err == nil
		if len(p.CacheIf) > 0 {
			cacheable = false
			for _, pr := range p.CacheIf {
				if predFn(pr)(ch.Exit.Val, ch.Exit.Err) {
					cacheable = true
				}
			}
		}
		if cacheable {
			m.c.cov("model.cache.store")
			if len(sets) != 1 || sets[0].Str != key || !reflect.DeepEqual(sets[0].Val, ch.Exit.Val) {
				m.fail("cache.store", "missing", fmt.Sprintf("cache policy at position %d must store the cacheable result %s under %q exactly once; stores: %d", n.Pos, outcomeStr(ch.Exit), key, len(sets)))
			}
		} else if len(sets) != 0 {
			m.fail("cache.store", "uncacheable", fmt.Sprintf("cache policy at position %d stored the result %s, which is not cacheable", n.Pos, outcomeStr(ch.Exit)))
		}
	}
	return mres{ok: kids[0].ok, verdict: kids[0].verdict}
}

func firstStr(es []*Event) string {
	if len(es) == 0 {
		return ""
	}
	return es[0].Str
}

// ---- hedge --------------------------------------------------------------------

func (m *modelCtx) evalHedge(n *Node, p *PolicySpec) mres {
	kids := m.children(n)
	if len(n.Children) > p.MaxHedges+1 {
		m.fail("hedge.attempts", "too-many", fmt.Sprintf("hedge policy at position %d with maxHedges=%d started %d attempts", n.Pos, p.MaxHedges, len(n.Children)))
	}
	if canceledAt(n.Exit) || canceledAt(n.Enter) {
		m.c.cov("model.hedge.canceled_path")
		return mres{}
	}
	// the returned result is one an attempt produced
	found, ok, verdict, first := false, true, false, true
	for i, ch := range n.Children {
		if ch.Exit != nil && ch.Exit.Seq < n.Exit.Seq && sameOutcome(n.Exit.Val, n.Exit.Err, ch.Exit.Val, ch.Exit.Err) {
			found = true
			if !kids[i].ok {
				ok = false
			}
			if first {
				verdict, first = kids[i].verdict, false
			} else if kids[i].verdict != verdict {
				ok = false // two attempts produced the returned outcome with different verdicts: which one won is not observable
			}
		}
	}
	if found {
		return mres{ok: ok, verdict: verdict}
	}
	m.fail("hedge.result", "not-produced", fmt.Sprintf("hedge policy at position %d returned %s, which none of its %d attempts had produced", n.Pos, outcomeStr(n.Exit), len(n.Children)))
	return mres{}
}

// ---- entry point ----------------------------------------------------------------

// checkModels evaluates the local models over every execution of the run.
// kinds restricts the failures that are reported to the given oracle-id
// prefixes (nil = all).
func checkModels(c *checkCtx, prefix string, allow ...string) {
	sc := c.Res.Sc
	for _, v := range c.Views {
		if v.Root == nil || v.OpEnd == nil || sc.NoProbes {
			continue
		}
		m := &modelCtx{c: c, v: v, sc: sc, prefix: prefix, allow: allow, retrySt: map[int]*retryState{}, hedgeAbove: map[int]bool{}}
		seenHedge := false
		for pos := range v.Stack {
			m.hedgeAbove[pos] = seenHedge
			if v.policyAt(sc, pos).Kind == KHedge {
				seenHedge = true
			}
		}
		r := m.evalNode(v.Root)
		// plumbing: the caller receives exactly the outermost layer's outcome
		if v.Root.Exit != nil {
			val := v.Root.Exit.Val
			if !entryIsGet(v.Op.Entry) && !entryAsync(v.Op.Entry) {
				val = nil // synchronous Run variants return only the error
			}
			if !sameOutcome(v.OpEnd.Val, v.OpEnd.Err, val, v.Root.Exit.Err) {
				m.fail("plumbing.caller", "caller", fmt.Sprintf("caller received %s but the outermost policy returned %s", outcomeStr(v.OpEnd), outcomeStr(v.Root.Exit)))
			}
		}
		// verdict reported to completion listeners
		succ, failn, done := len(v.listeners(-1, LExecSuccess)), len(v.listeners(-1, LExecFailure)), len(v.listeners(-1, LExecDone))
		if done != 1 || succ+failn != 1 {
			m.fail("verdict.count", "count", fmt.Sprintf("completion listeners: OnDone=%d OnSuccess=%d OnFailure=%d (each execution must produce one OnDone and one of OnSuccess/OnFailure)", done, succ, failn))
		} else if r.ok {
			c.cov("model.verdict_checked")
			if r.verdict != (succ == 1) {
				id := "verdict.value"
				if m.rootFallbackApplied {
					id = "verdict.fallback-output"
				}
				m.fail(id, "value", fmt.Sprintf("nesting of the policies' classifications gives verdict success=%v for result %s, but the executor reported success=%v", r.verdict, outcomeStr(v.Root.Exit), succ == 1))
			}
		}
	}
}

var _ = time.Second
