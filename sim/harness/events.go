package harness

import (
	"time"

	"dsim/simrt"
)

// Event kinds.
const (
	EvOpStart    = iota + 1 // client operation started
	EvOpEnd                 // client operation returned: Val/Err = returned values
	EvProbeEnter            // probe at stack position Pos entered
	EvProbeExit             // probe exit: Val/Err/Flags = PolicyResult
	EvFnStart               // wrapped function started; A = invocation index within execution
	EvFnEnd                 // wrapped function returning
	EvListener              // policy/executor listener; L = listener id
	EvFallbackFn            // fallback function invoked
	EvFallbackFnEnd
	EvDelayFn // a delay function was consulted
	EvCacheGet
	EvCacheSet
	EvCancel     // a cancellation source fired (A = source kind)
	EvAsync      // async result observation (reader op); A = reader op kind
	EvStandalone // standalone API call result
	EvNote
)

// PolicyResult flag bits.
const (
	FDone = 1 << iota
	FSuccess
	FSuccessAll
	FHasExec       // snapshot of execution statistics present
	FIsCanceled    // exec.IsCanceled() at the observation point
	FFirst         // IsFirstAttempt
	FRetry         // IsRetry
	FHedge         // IsHedge
	FNilResult     // PolicyResult pointer was nil
	FEndCanceled   // end of run: the referenced execution's IsCanceled()
	FEndChanClosed // end of run: its Canceled() channel is closed
	FEndCtxErr     // end of run: its Context().Err() is set
	FHasElapsed    // Elapsed / ElapsedAttempt were read (ExecutionAttempt observers)
)

// Event is one observation. Events are appended by the task that made the
// observation, through norace helpers (observation must not synchronise).
type Event struct {
	Seq   int
	Step  int
	T     time.Duration // fake time since simulation start
	Task  int
	Exec  int // execution id (task tag), -1 if none
	Kind  int
	Pos   int // stack position for probes; policy instance for listeners
	L     int // listener id / sub kind
	A, B  int64
	Val   any
	Err   error
	Flags int
	// execution statistics snapshot (valid with FHasExec)
	Attempts, Executions, Retries, Hedges int
	LastVal                               any
	LastErr                               error
	Start, AttemptStart                   time.Duration // relative to sim start
	Elapsed, ElapsedAttempt               time.Duration // ElapsedTime() / ElapsedAttemptTime() at the observation (with FHasExec)
	Ref                                   any           // object reference for end-of-run queries (execution copies, contexts)
	Str                                   string
	Aux                                   []int // probe exit: sequence numbers of inner-call enter events whose execution is cancelled now
}

type Log struct {
	Ev     []Event
	closed bool
	hooks  []func(l *Log, e *Event) // invariants evaluated on every appended event
	Viol   []Violation
}

// Violation is an oracle failure.
type Violation struct {
	Oracle string // stable oracle id, e.g. "C08.cause"
	Msg    string
	Seq    int    // event at which it was detected, -1 = end of run
	Sig    string // signature used to match known findings
}

var curLog *Log

//go:norace
func newLog() *Log {
	l := &Log{Ev: make([]Event, 0, 512)}
	curLog = l
	return l
}

// add appends e, stamping sequence number, step, fake time, task and tag.
//
//go:norace
func (l *Log) add(e Event) *Event {
	if l == nil || l.closed {
		return nil
	}
	e.Seq = len(l.Ev)
	e.Step = simrt.Step()
	e.T = simrt.Now()
	e.Task = simrt.Current()
	if e.Exec == 0 {
		e.Exec = simrt.Tag()
	} else if e.Exec == -2 {
		e.Exec = -1
	}
	l.Ev = append(l.Ev, e)
	p := &l.Ev[len(l.Ev)-1]
	for _, h := range l.hooks {
		h(l, p)
	}
	return p
}

//go:norace
func (l *Log) violate(oracle, sig, msg string, seq int) {
	if l == nil || l.closed {
		return
	}
	if len(l.Viol) < 16 {
		l.Viol = append(l.Viol, Violation{Oracle: oracle, Msg: msg, Seq: seq, Sig: sig})
	}
}

//go:norace
func (l *Log) lastSeq() int {
	if l == nil {
		return 0
	}
	return len(l.Ev) - 1
}

// childCanceled returns the sequence numbers of the probe-enter events at
// position pos of the calling task's execution recorded after sequence number
// from whose execution copy is cancelled now.
//
//go:norace
func (l *Log) childCanceled(from, pos int) []int {
	if l == nil || l.closed {
		return nil
	}
	tag := simrt.Tag()
	me := simrt.Current()
	var out []int
	for k := from + 1; k < len(l.Ev); k++ {
		e := &l.Ev[k]
		if e.Kind != EvProbeEnter || e.Pos != pos || e.Exec != tag || !simrt.IsAncestor(me, e.Task) {
			continue // only calls made on behalf of this call: their execution copies were created by this task
		}
		if c, ok := e.Ref.(interface{ IsCanceled() bool }); ok && c.IsCanceled() {
			out = append(out, e.Seq)
		}
	}
	return out
}

// acquiredSince reports whether the calling task logged a successful standalone acquisition after seq.
//
//go:norace
func (l *Log) acquiredSince(seq int) bool {
	if l == nil {
		return false
	}
	me := simrt.Current()
	for k := seq + 1; k < len(l.Ev); k++ {
		e := &l.Ev[k]
		if e.Kind == EvStandalone && e.Task == me && e.L == 1 && e.A == 1 {
			return true
		}
	}
	return false
}
