package harness

import (
	"math"
	"time"
)

const ms = time.Millisecond

// genCond draws a condition set. all=false keeps it small.
func genCond(r *Rnd, allowEmpty bool) Cond {
	var c Cond
	if allowEmpty && r.P(0.35) {
		return c
	}
	if r.P(0.5) {
		for i, n := 0, r.Range(1, 3); i < n; i++ {
			c.Errors = append(c.Errors, pick(r, EA, EB, EC))
		}
	}
	if r.P(0.3) {
		c.ErrTypes = append(c.ErrTypes, r.Intn(TCount))
		if r.P(0.3) {
			c.ErrTypes = append(c.ErrTypes, r.Intn(TCount))
		}
	}
	if len(c.Errors) > 1 || len(c.ErrTypes) > 1 {
		c.Variadic = r.Bool() // one call listing them all, or one call each
	}
	if r.P(0.35) {
		c.Results = append(c.Results, pick(r, 0, 1, 2, 3, boxedBase+1, boxedBase+2))
	}
	if r.P(0.3) {
		c.Preds = append(c.Preds, r.Intn(PCount))
	}
	if !allowEmpty && c.empty() {
		c.Errors = []int{EA}
	}
	return c
}

func genRetry(r *Rnd, unit time.Duration) PolicySpec {
	p := PolicySpec{Kind: KRetry}
	p.MaxRetries = pick(r, 0, 1, 1, 2, 2, 3, 3, 5, -1)
	p.MaxAttempts = r.P(0.25)
	if r.P(0.5) {
		p.Handle = genCond(r, false)
	}
	if r.P(0.3) {
		p.Abort = genCond(r, false)
	}
	p.ReturnLast = r.P(0.3)
	switch r.Intn(6) {
	case 0:
	case 1, 2:
		p.DelayKind = DelayFixed
		p.Delay = time.Duration(r.Range(1, 10)) * unit
	case 3:
		p.DelayKind = DelayBackoff
		p.Delay = time.Duration(r.Range(1, 5)) * unit
		p.MaxDelay = p.Delay * time.Duration(r.Range(2, 20))
		p.Factor = pick[float32](r, 2, 1.5, 3, 1.1)
	case 4:
		p.DelayKind = DelayRandom
		p.DelayMin = time.Duration(r.Range(1, 5)) * unit
		p.DelayMax = p.DelayMin + time.Duration(r.Range(1, 10))*unit
	case 5:
		p.DelayFn = []D{time.Duration(r.Range(0, 8)) * unit, time.Duration(r.Range(1, 8)) * unit}
		if r.P(0.3) {
			p.DelayFn = append(p.DelayFn, -1)
			p.DelayKind = DelayFixed
			p.Delay = time.Duration(r.Range(1, 10)) * unit
		}
	}
	if p.DelayKind != DelayNone && r.P(0.15) {
		p.PreReplaced = true
	}
	if p.DelayKind != DelayNone && r.P(0.3) {
		if r.Bool() {
			p.Jitter = time.Duration(r.Range(1, 3)) * unit / 2
		} else {
			p.JitterFactor = pick[float32](r, 0.1, 0.25, 0.5)
		}
	}
	if r.P(0.2) {
		p.MaxDuration = time.Duration(r.Range(5, 60)) * unit
	}
	return p
}

func genBreaker(r *Rnd, unit time.Duration) PolicySpec {
	p := PolicySpec{Kind: KBreaker}
	if r.P(0.4) {
		p.Handle = genCond(r, false)
	}
	p.BrKind = r.Intn(4)
	switch p.BrKind {
	case 0:
		p.FailThr = uint(r.Range(1, 4))
	case 1:
		p.FailCap = uint(r.Range(2, 6))
		p.FailThr = uint(r.Range(1, int(p.FailCap)))
	case 2:
		p.FailThr = uint(r.Range(1, 4))
		p.Period = time.Duration(r.Range(20, 200)) * unit
	case 3:
		p.RateThr = uint(pick(r, 20, 50, 51, 100))
		p.ExecThr = uint(r.Range(0, 5))
		p.Period = time.Duration(r.Range(20, 200)) * unit
	}
	if r.P(0.4) {
		p.SuccThr = uint(r.Range(1, 3))
		if r.P(0.5) {
			p.SuccCap = p.SuccThr + uint(r.Range(0, 3))
		}
	}
	p.Delay = time.Duration(r.Range(5, 50)) * unit
	if r.P(0.2) {
		p.DelayFn = []D{time.Duration(r.Range(1, 30)) * unit, -1}
	}
	if r.P(0.03) {
		p.Delay = foreverDelay(r)
	}
	return p
}

// foreverDelay is a breaker delay meaning "stay open until closed by hand":
// longer than any run, and large enough that adding it to a wall clock reading
// leaves the range of a 64 bit nanosecond count.
func foreverDelay(r *Rnd) time.Duration {
	const year = 365 * 24 * time.Hour
	return pick(r, time.Duration(math.MaxInt64), time.Duration(math.MaxInt64), 280*year, 270*year, 100*year)
}

func genLimiter(r *Rnd, unit time.Duration) PolicySpec {
	p := PolicySpec{Kind: KLimiter}
	if r.Bool() {
		p.Smooth = true
		p.Interval = time.Duration(r.Range(1, 10)) * unit
	} else {
		p.MaxExec = uint(r.Range(1, 4))
		p.Period = time.Duration(r.Range(5, 40)) * unit
	}
	p.MaxWait = pick(r, 0, 0, time.Duration(r.Range(1, 50))*unit, -1)
	if p.MaxWait == -1 {
		p.MaxWait = 1000 * unit
	}
	return p
}

func genBulkhead(r *Rnd, unit time.Duration) PolicySpec {
	p := PolicySpec{Kind: KBulkhead, MaxConc: uint(r.Range(1, 3))}
	p.MaxWait = pick(r, 0, time.Duration(r.Range(1, 30))*unit, 1000*unit)
	return p
}

func genTimeout(r *Rnd, unit time.Duration) PolicySpec {
	return PolicySpec{Kind: KTimeout, Limit: time.Duration(r.Range(2, 40)) * unit}
}

func genHedge(r *Rnd, unit time.Duration) PolicySpec {
	p := PolicySpec{Kind: KHedge, MaxHedges: pick(r, 1, 1, 2, 2, 3, 0)}
	p.Delay = time.Duration(r.Range(1, 15)) * unit
	if r.P(0.25) {
		p.DelayFn = []D{time.Duration(r.Range(1, 10)) * unit, time.Duration(r.Range(1, 10)) * unit}
	}
	if r.P(0.5) {
		p.Cancel = genCond(r, false)
	}
	return p
}

func genFallback(r *Rnd, unit time.Duration) PolicySpec {
	p := PolicySpec{Kind: KFallback, FbKind: r.Intn(3)}
	p.FbResult = pick(r, 100, 101, 1, 3)
	if p.FbKind == 0 {
		// WithResult
	} else if p.FbKind == 1 {
		p.FbErr = pick(r, EA, EB, EC, EValErr)
		p.FbResult = 0
	} else {
		p.FbErr = pick(r, ENil, ENil, EA, EB)
		if r.P(0.3) {
			p.FbDur = time.Duration(r.Range(1, 10)) * unit
		}
	}
	if r.P(0.5) {
		p.Handle = genCond(r, false)
	}
	return p
}

func genCache(r *Rnd) PolicySpec {
	p := PolicySpec{Kind: KCache, Key: pick(r, "", "k1", "k1", "k2")}
	if r.P(0.3) {
		p.CacheIf = []int{pick(r, POdd, PBig, PAnyErr, PNever)}
	}
	if r.P(0.3) {
		p.Preload = map[string]int{pick(r, "k1", "k2", "k3"): r.Range(200, 210)}
	}
	return p
}

// genOutcome draws one function outcome.
func genOutcome(r *Rnd, unit time.Duration, failP float64) Outcome {
	o := Outcome{Result: pick(r, 0, 1, 2, 3, 4, 100)}
	if r.P(0.06) {
		o.Result = boxedBase + pick(r, 1, 2, 3) // a freshly allocated pointer result
	}
	if r.P(failP) {
		o.Err = pick(r, EA, EA, EB, EC, EWrapA, EJoinBC, EValErr, EPtrErr, EWrapPtr)
		if r.P(0.7) {
			o.Result = 0
		}
	}
	switch r.Intn(4) {
	case 0:
	default:
		o.Dur = time.Duration(r.Range(1, 20)) * unit
	}
	return o
}

func genScript(r *Rnd, unit time.Duration, n int, failP float64) Script {
	var s Script
	for i := 0; i < n; i++ {
		s.Outcomes = append(s.Outcomes, genOutcome(r, unit, failP))
	}
	return s
}

func shuffle[T any](r *Rnd, xs []T) {
	for i := len(xs) - 1; i > 0; i-- {
		j := r.Intn(i + 1)
		xs[i], xs[j] = xs[j], xs[i]
	}
}
