package harness

import "sort"

func sortedKeys(m map[string]int) []string {
	ks := make([]string, 0, len(m))
	for k := range m {
		ks = append(ks, k)
	}
	sort.Strings(ks)
	return ks
}
