package harness

import (
	"encoding/binary"
	"encoding/json"
	"fmt"
	"hash/fnv"
	"os"
	"sort"
	"strings"
	"testing"
	"time"

	"dsim/simrt"
)

// Job is what the driver (bin/check) asks one worker process to do.
type Job struct {
	Mode     string      `json:"mode"` // search | replay | shrink
	Prop     string      `json:"prop"`
	Tier     string      `json:"tier"`
	Seed     uint64      `json:"seed"`
	Worker   int         `json:"worker"`
	Workers  int         `json:"workers"`
	Cases    int         `json:"cases"`      // total cases across all workers (0 = property default)
	MaxWallS int         `json:"max_wall_s"` // stop generating new cases after this many seconds
	Out      string      `json:"out"`
	Replay   string      `json:"replay,omitempty"`
	MaxViol  int         `json:"max_viol,omitempty"`
	Known    []KnownSpec `json:"known,omitempty"`
}

// KnownSpec identifies one recorded known finding narrowly (see known_findings.json).
type KnownSpec struct {
	ID            string   `json:"id"`
	Oracle        string   `json:"oracle"`
	Sig           *string  `json:"sig,omitempty"`
	SigPrefix     *string  `json:"sig_all_frames_prefix,omitempty"`
	Kinds         []string `json:"policy_kinds,omitempty"`          // policy kinds the scenario must use
	BothCtx       bool     `json:"adapter_both_contexts,omitempty"` // adapter scenario with non-background request and executor contexts
	AdapterPolicy string   `json:"adapter_policy_kind,omitempty"`   // adapter scenario using this policy kind
	AdapterBodies []int    `json:"adapter_body_in,omitempty"`       // adapter scenario whose request body kind is one of these
}

func (k *KnownSpec) matches(v *Violation, sc *Scenario) bool {
	if k.Oracle != v.Oracle {
		return false
	}
	if k.Sig != nil && *k.Sig != v.Sig {
		return false
	}
	if k.SigPrefix != nil {
		fr := strings.Split(v.Sig, "|")
		if len(fr) == 0 {
			return false
		}
		for _, f := range fr {
			if !strings.HasPrefix(strings.TrimSpace(f), *k.SigPrefix) {
				return false
			}
		}
	}
	if k.BothCtx {
		a := sc.Adapter
		if a == nil || a.ReqCtx == ACtxBackground || a.ExecCtx == ACtxBackground || a.ExecCtx == ACtxNone {
			return false
		}
	}
	if k.AdapterPolicy != "" {
		ok := false
		if sc.Adapter != nil {
			for _, p := range sc.Adapter.Policies {
				if p.Kind == k.AdapterPolicy {
					ok = true
				}
			}
		}
		if !ok {
			return false
		}
	}
	if len(k.AdapterBodies) > 0 {
		ok := false
		if sc.Adapter != nil {
			for _, b := range k.AdapterBodies {
				if sc.Adapter.Body == b {
					ok = true
				}
			}
		}
		if !ok {
			return false
		}
	}
	for _, kind := range k.Kinds {
		used := false
		for _, st := range sc.Stacks {
			for _, pi := range st {
				if sc.Policies[pi].Kind == kind {
					used = true
				}
			}
		}
		if sc.Adapter != nil {
			for _, p := range sc.Adapter.Policies {
				if p.Kind == kind {
					used = true // adapter scenarios keep their policies in the adapter spec
				}
			}
		}
		if !used {
			return false
		}
	}
	return true
}

// ReplayFile is the replayable record of one violation.
type ReplayFile struct {
	Property  string           `json:"property"`
	Oracle    string           `json:"oracle"`
	Sig       string           `json:"sig"`
	Msg       string           `json:"msg"`
	CaseSeed  uint64           `json:"case_seed"`
	Scenario  *Scenario        `json:"scenario"`
	Cfg       CfgJSON          `json:"cfg"`
	Decisions []simrt.Decision `json:"decisions"`
	TraceHash uint64           `json:"trace_hash"`
	Trace     []string         `json:"trace,omitempty"`
	Schedule  []string         `json:"schedule,omitempty"`
	Minimised bool             `json:"minimised"`
}

type CfgJSON struct {
	Seed      uint64          `json:"seed"`
	Strategy  int             `json:"strategy"`
	PCTDepth  int             `json:"pct_depth,omitempty"`
	PCTLen    int             `json:"pct_len,omitempty"`
	StickyP   float64         `json:"sticky_p,omitempty"`
	RandMode  int             `json:"rand_mode,omitempty"`
	StallP    float64         `json:"stall_p,omitempty"`
	StallDurs []time.Duration `json:"stall_durs,omitempty"`
}

func cfgToJSON(c simrt.Config) CfgJSON {
	return CfgJSON{c.Seed, c.Strategy, c.PCTDepth, c.PCTLen, c.StickyP, c.RandMode, c.StallP, c.StallDurs}
}
func (c CfgJSON) cfg() simrt.Config {
	return simrt.Config{Seed: c.Seed, Strategy: c.Strategy, PCTDepth: c.PCTDepth, PCTLen: c.PCTLen, StickyP: c.StickyP, RandMode: c.RandMode, StallP: c.StallP, StallDurs: c.StallDurs}
}

// WorkerOut is what a search worker reports.
type WorkerOut struct {
	Prop        string         `json:"prop"`
	Cases       int            `json:"cases"`
	Runs        int            `json:"runs"`
	Steps       int64          `json:"steps"`
	Choices     int64          `json:"choices"`
	Preempt     int64          `json:"preemptions"`
	SimTimeNs   int64          `json:"sim_time_ns"`
	WallS       float64        `json:"wall_s"`
	Nontrivial  int            `json:"nontrivial_runs"`
	HashFile    string         `json:"hash_file"`
	Cov         map[string]int `json:"cov"`
	Strategies  map[string]int `json:"strategies"`
	Sites       map[string]int `json:"sites"`
	Samples     []any          `json:"samples"`
	Violations  []string       `json:"violations"` // replay file paths
	Errors      []string       `json:"errors"`     // harness trouble (exit 2)
	KnownHits   map[string]int `json:"known_hits"`
	RaceReports int            `json:"race_reports"`
}

func propHash(id string) uint64 {
	h := fnv.New64a()
	h.Write([]byte(id))
	return h.Sum64()
}

func scenarioShapeHash(sc *Scenario) uint64 {
	b, _ := json.Marshal(sc)
	h := fnv.New64a()
	h.Write(b)
	return h.Sum64()
}

func workerMain(t *testing.T) {
	path := os.Getenv("DSIM_JOB")
	if path == "" {
		t.Skip("no DSIM_JOB")
	}
	b, err := os.ReadFile(path)
	if err != nil {
		t.Fatal(err)
	}
	var job Job
	if err := json.Unmarshal(b, &job); err != nil {
		t.Fatal(err)
	}
	switch job.Mode {
	case "search":
		search(t, &job)
	case "replay":
		replay(t, &job)
	case "shrink":
		shrink(t, &job)
	case "hashes":
		hashes(t, &job)
	default:
		t.Fatalf("unknown mode %q", job.Mode)
	}
}

type searcher struct {
	t      *testing.T
	job    *Job
	p      *PropDef
	out    *WorkerOut
	hashes map[uint64]struct{}
	tier   Tier
	nviol  int
}

func search(t *testing.T, job *Job) {
	p := props[job.Prop]
	if p == nil {
		t.Fatalf("unknown property %s", job.Prop)
	}
	s := &searcher{t: t, job: job, p: p, hashes: map[uint64]struct{}{}, tier: Tier{Name: job.Tier, Thorough: job.Tier == "thorough"}}
	s.out = &WorkerOut{Prop: job.Prop, Cov: map[string]int{}, Strategies: map[string]int{}, Sites: map[string]int{}, KnownHits: map[string]int{}}
	cases := job.Cases
	if cases == 0 {
		cases = p.QuickCases
		if s.tier.Thorough {
			cases = p.ThoroughCases
		}
	}
	start := time.Now()
	maxViol := job.MaxViol
	if maxViol == 0 {
		maxViol = 3
	}
	for i := job.Worker; i < cases; i += job.Workers {
		if job.MaxWallS > 0 && time.Since(start) > time.Duration(job.MaxWallS)*time.Second {
			s.out.Cov["wall_cap_hit"]++
			break
		}
		if s.nviol >= maxViol {
			break
		}
		seed := simrt.Mix(simrt.Mix(job.Seed, propHash(job.Prop)), uint64(i))
		s.runCase(seed)
		s.out.Cases++
	}
	s.out.WallS = time.Since(start).Seconds()
	s.out.RaceReports = simrt.RaceErrors()
	// distinct (scenario shape, interleaving) hashes
	hf := job.Out + ".hashes"
	buf := make([]byte, 0, 8*len(s.hashes))
	keys := make([]uint64, 0, len(s.hashes))
	for h := range s.hashes {
		keys = append(keys, h)
	}
	sort.Slice(keys, func(i, j int) bool { return keys[i] < keys[j] })
	for _, h := range keys {
		buf = binary.LittleEndian.AppendUint64(buf, h)
	}
	os.WriteFile(hf, buf, 0o644)
	s.out.HashFile = hf
	ob, _ := json.MarshalIndent(s.out, "", " ")
	if err := os.WriteFile(job.Out, ob, 0o644); err != nil {
		t.Fatal(err)
	}
}

// runCase generates the case for seed and explores it.
func (s *searcher) runCase(seed uint64) {
	r := NewRnd(seed)
	c := s.p.Gen(r, s.tier)
	if c.Cfg.Seed == 0 && c.Cfg.Replay == nil {
		c.Cfg = swarmConfig(r, seed, 150)
		if s.p.Stalls && r.P(0.25) {
			c.Cfg.StallP = pick(r, 0.01, 0.05)
			c.Cfg.StallDurs = []time.Duration{1, time.Millisecond, 7 * time.Millisecond, 30 * time.Millisecond}
		}
	}
	base := s.runOne(seed, c.Sc, c.Cfg, nil)
	if !c.Sweep || base == nil {
		return
	}
	n := base.Out.Steps
	maxK := 400
	if s.tier.Thorough {
		maxK = 3000
	}
	stride := 1
	if n > maxK {
		stride = (n + maxK - 1) / maxK
	}
	for k := 1; k <= n; k += stride {
		sc := sweepAt(c.Sc, k)
		if s.runOne(seed, sc, c.Cfg, base) == nil {
			return
		}
		s.out.Cov["sweep_points"]++
	}
}

// sweepAt returns a copy of sc whose injected faults fire at scheduler step k.
func sweepAt(sc *Scenario, k int) *Scenario {
	c := cloneScenario(sc)
	for ci := range c.Clients {
		for oi := range c.Clients[ci].Ops {
			op := &c.Clients[ci].Ops[oi]
			if op.CancelSrc == SrcCtxCancel || op.CancelSrc == SrcResultCancel {
				op.CancelStep = k
			}
			if op.ProbeStep != 0 {
				op.ProbeStep = k
			}
		}
	}
	return c
}

func cloneScenario(sc *Scenario) *Scenario {
	b, _ := json.Marshal(sc)
	var c Scenario
	json.Unmarshal(b, &c)
	return &c
}

// runOne executes one run and applies the property's oracles. It returns nil
// when exploration of this case should stop (violation or harness trouble).
func (s *searcher) runOne(caseSeed uint64, sc *Scenario, cfg simrt.Config, base *RunResult) *RunResult {
	res := runScenario(s.t, sc, cfg)
	s.out.Runs++
	if res.Out == nil {
		s.out.Errors = append(s.out.Errors, fmt.Sprintf("case %d: run did not complete: %s", caseSeed, res.BubblePanic))
		return nil
	}
	s.out.Steps += int64(res.Out.Steps)
	s.out.Choices += int64(res.Out.Choices)
	s.out.Preempt += int64(res.Out.Preemptions)
	s.out.SimTimeNs += int64(res.SimTime)
	s.out.Strategies[stratNames[cfg.Strategy]]++
	for _, te := range res.Out.Trace {
		if te.N > 1 {
			s.out.Sites[te.Site]++
		}
	}
	cc := &checkCtx{T: s.t, Prop: s.p.ID, Res: res, Base: base, Cov: s.out.Cov, baseCfg: cfg}
	cc.Views = analyse(res)
	commonChecks(cc)
	s.p.Check(cc)
	nontrivial := res.Out.Choices > 0 || cc.faults() > 0
	if nontrivial {
		s.out.Nontrivial++
		h := scenarioShapeHash(sc) ^ (res.Out.TraceHash * 0x9e3779b97f4a7c15)
		s.hashes[h] = struct{}{}
	}
	if len(s.out.Samples) < 3 && (nontrivial || s.out.Runs > 50) {
		s.out.Samples = append(s.out.Samples, map[string]any{"case_seed": caseSeed, "scenario": sc, "strategy": stratNames[cfg.Strategy], "steps": res.Out.Steps, "choices": res.Out.Choices, "events": res.traceText(40)})
	}
	var viol []Violation
	for _, v := range append(cc.Viol, res.Log.Viol...) {
		known := false
		for i := range s.job.Known {
			if s.job.Known[i].matches(&v, sc) {
				s.out.KnownHits[s.job.Known[i].ID]++
				known = true
				break
			}
		}
		if !known {
			viol = append(viol, v)
		}
	}
	if len(viol) == 0 {
		return res
	}
	v := viol[0]
	rf := &ReplayFile{Property: s.p.ID, Oracle: v.Oracle, Sig: v.Sig, Msg: v.Msg, CaseSeed: caseSeed, Scenario: sc, Cfg: cfgToJSON(cfg),
		Decisions: res.Out.Decisions, TraceHash: res.Out.TraceHash, Trace: res.traceText(400), Schedule: scheduleText(res)}
	path := fmt.Sprintf("%s.viol%d.json", s.job.Out, s.nviol)
	b, _ := json.MarshalIndent(rf, "", " ")
	os.WriteFile(path, b, 0o644)
	s.out.Violations = append(s.out.Violations, path)
	s.nviol++
	return nil
}

func scheduleText(res *RunResult) []string {
	var out []string
	for _, te := range res.Out.Trace {
		if te.N > 1 {
			out = append(out, fmt.Sprintf("step %d: task %d at %s (of %d runnable)", te.Step, te.Task, te.Site, te.N))
		}
	}
	if len(out) > 300 {
		out = append(out[:300], "...")
	}
	return out
}

// faults counts the fault kinds that fired in this run (not merely configured).
func (c *checkCtx) faults() int {
	n := 0
	for _, v := range c.Views {
		if v.Cancel0 != nil {
			n++
		}
		for _, e := range v.FnEnds {
			if e.Err != nil || e.L == 1 {
				n++
			}
		}
	}
	if c.Res.Sc.Adapter != nil {
		for i := range c.Res.Log.Ev {
			e := &c.Res.Log.Ev[i]
			if e.Kind == EvAdapter && (e.L == AdCallerCancel || (e.L == AdAttemptEnd && (e.Err != nil || e.B >= 400 || (c.Res.Sc.Adapter.Proto != "http" && e.B != 0)))) {
				n++
			}
		}
	}
	// state transitions and refusals of standalone histories
	for i := range c.Res.Log.Ev {
		e := &c.Res.Log.Ev[i]
		if e.Kind == EvListener && e.L == LBrStateChanged {
			n++
		}
		if e.Kind == EvStandalone && e.L == 1 && (e.A == 0 || e.A == -1) && (e.Str == "br.try" || e.Str == "rl.try" || e.Str == "rl.tryreserve" || e.Str == "bh.try") {
			n++
		}
	}
	return n
}

// commonChecks are harness-level sanity checks applied to every run of every property.
func commonChecks(c *checkCtx) {
	res := c.Res
	if res.Out.ReplayDiverged {
		c.cov("replay_diverged")
	}
	if res.Out.Foreign > 0 {
		c.cov("uncontrolled_block")
	}
	if res.Out.Stalls > 0 {
		c.Cov["fault.stall"] += res.Out.Stalls
	}
	for _, v := range c.Views {
		if v.Cancel0 != nil {
			c.cov(fmt.Sprintf("fault.cancel.src%d", v.Cancel0.A))
		}
		for _, e := range v.FnEnds {
			if e.Err != nil {
				c.cov("fault.outcome.error")
			}
			if e.L == 1 {
				c.cov("fault.fn_saw_cancel")
			}
		}
	}
}

// replay re-executes a replay file and reports whether the same oracle fails.
func replay(t *testing.T, job *Job) {
	b, err := os.ReadFile(job.Replay)
	if err != nil {
		t.Fatal(err)
	}
	var rf ReplayFile
	if err := json.Unmarshal(b, &rf); err != nil {
		t.Fatal(err)
	}
	p := props[rf.Property]
	if p == nil {
		t.Fatalf("unknown property %s", rf.Property)
	}
	viol, res := replayOnce(t, p, &rf)
	out := map[string]any{"reproduced": false, "trace_hash_match": res.Out != nil && res.Out.TraceHash == rf.TraceHash}
	for _, v := range viol {
		if v.Oracle == rf.Oracle {
			out["reproduced"] = true
			out["msg"] = v.Msg
			out["sig"] = v.Sig
		}
	}
	if res.Out != nil {
		out["diverged"] = res.Out.ReplayDiverged
	}
	out["events"] = res.traceText(400)
	ob, _ := json.MarshalIndent(out, "", " ")
	os.WriteFile(job.Out, ob, 0o644)
}

func replayOnce(t *testing.T, p *PropDef, rf *ReplayFile) ([]Violation, *RunResult) {
	cfg := rf.Cfg.cfg()
	cfg.Replay = rf.Decisions
	if cfg.Replay == nil {
		cfg.Replay = []simrt.Decision{}
	}
	res := runScenario(t, rf.Scenario, cfg)
	if res.Out == nil {
		return nil, res
	}
	cc := &checkCtx{T: t, Prop: p.ID, Res: res, Cov: map[string]int{}}
	cc.Views = analyse(res)
	cc.baseCfg = rf.Cfg.cfg()
	commonChecks(cc)
	p.Check(cc)
	return append(cc.Viol, res.Log.Viol...), res
}

// hashes runs the first job.Cases cases of a property and writes, per run, the
// hash of its schedule and of its complete event log (determinism self-test).
func hashes(t *testing.T, job *Job) {
	p := props[job.Prop]
	if p == nil {
		t.Fatalf("unknown property %s", job.Prop)
	}
	var out []string
	tier := Tier{Name: job.Tier}
	for i := 0; i < job.Cases; i++ {
		seed := simrt.Mix(simrt.Mix(job.Seed, propHash(job.Prop)), uint64(i))
		r := NewRnd(seed)
		c := p.Gen(r, tier)
		if c.Cfg.Seed == 0 && c.Cfg.Replay == nil {
			c.Cfg = swarmConfig(r, seed, 150)
		}
		scs := []*Scenario{c.Sc}
		if c.Sweep {
			scs = append(scs, sweepAt(c.Sc, 7), sweepAt(c.Sc, 23))
		}
		for _, sc := range scs {
			res := runScenario(t, sc, c.Cfg)
			h := fnv.New64a()
			if res.Log != nil {
				for k := range res.Log.Ev {
					h.Write([]byte(res.Log.Ev[k].String()))
				}
			}
			th := uint64(0)
			steps := 0
			if res.Out != nil {
				th, steps = res.Out.TraceHash, res.Out.Steps
			}
			out = append(out, fmt.Sprintf("%d %016x %016x %d %d", i, th, h.Sum64(), steps, len(res.Survivors)))
			if os.Getenv("DSIM_DUMP") != "" && i == 0 {
				for _, l := range res.traceText(0) {
					fmt.Println(l)
				}
			}
		}
	}
	b, _ := json.Marshal(out)
	os.WriteFile(job.Out, b, 0o644)
}
