package harness

import (
	"errors"
	"fmt"
	"time"
)

// D is a duration in nanoseconds (JSON friendly).
type D = time.Duration

// ---- error universe -------------------------------------------------------

type valErr struct{ Code int }

func (e valErr) Error() string { return fmt.Sprintf("valErr(%d)", e.Code) }

type ptrErr struct{ Code int }

func (e *ptrErr) Error() string { return fmt.Sprintf("ptrErr(%d)", e.Code) }

var (
	errA         = errors.New("errA")
	errB         = errors.New("errB")
	errC         = errors.New("errC")
	errSawCancel = errors.New("fn saw cancellation")
	errFallback  = errors.New("fallback error")
	errCause     = errors.New("the caller's own cause")
)

// Error kinds a script can produce.
const (
	ENil = iota
	EA
	EB
	EWrapA
	EJoinBC
	EValErr
	EPtrErr
	EC
	EWrapPtr
	ECount
)

var errTable = [ECount]error{
	ENil:     nil,
	EA:       errA,
	EB:       errB,
	EWrapA:   fmt.Errorf("wrapped: %w", errA),
	EJoinBC:  errors.Join(errB, errC),
	EValErr:  valErr{7},
	EPtrErr:  &ptrErr{8},
	EC:       errC,
	EWrapPtr: fmt.Errorf("wrapped: %w", &ptrErr{9}),
}

var errNames = [ECount]string{"nil", "errA", "errB", "wrap(errA)", "join(errB,errC)", "valErr", "*ptrErr", "errC", "wrap(*ptrErr)"}

// Error type ids for HandleErrorTypes.
const (
	TVal  = iota // valErr{}
	TPtr         // ptrErr{} given as non-pointer target for a pointer-receiver error
	TPtr2        // &ptrErr{}
	TCount
)

var errTypeTargets = [TCount]any{valErr{}, ptrErr{}, &ptrErr{}}

// Predicate ids.
const (
	POdd  = iota // no error and odd integer result
	PErrB        // error matching errB
	PNever
	PBig // integer result >= 100
	PAnyErr
	PCount
)

func predFn(id int) func(any, error) bool {
	switch id {
	case POdd:
		return func(r any, err error) bool { v, ok := r.(int); return err == nil && ok && v%2 == 1 }
	case PErrB:
		return func(r any, err error) bool { return errors.Is(err, errB) }
	case PBig:
		return func(r any, err error) bool { v, ok := r.(int); return ok && v >= 100 }
	case PAnyErr:
		return func(r any, err error) bool { return err != nil }
	default:
		return func(r any, err error) bool { return false }
	}
}

// boxed is a pointer-shaped result: result codes from boxedBase on stand for a freshly allocated *boxed, so that two
// equal results are distinct pointers (the library compares results with reflect.DeepEqual, by value).
type boxed struct{ N int }

func (b *boxed) String() string { return fmt.Sprintf("&box(%d)", b.N) }

const boxedBase = 1000

// resVal turns a result code of a script or a condition into the result value.
func resVal(code int) any {
	if code >= boxedBase {
		return &boxed{N: code - boxedBase}
	}
	return code
}

// Cond is a set of handle / abort / cancel conditions.
type Cond struct {
	Errors   []int `json:"errors,omitempty"`   // error kinds registered with HandleErrors/AbortOnErrors
	ErrTypes []int `json:"errtypes,omitempty"` // error type ids
	Results  []int `json:"results,omitempty"`  // result values
	Preds    []int `json:"preds,omitempty"`    // predicate ids
	Variadic bool  `json:"variadic,omitempty"` // register all errors / error types with one call instead of one call each
}

func (c Cond) empty() bool {
	return len(c.Errors) == 0 && len(c.ErrTypes) == 0 && len(c.Results) == 0 && len(c.Preds) == 0
}

// ---- policies ---------------------------------------------------------------

const (
	KRetry    = "retry"
	KBreaker  = "breaker"
	KLimiter  = "limiter"
	KBulkhead = "bulkhead"
	KTimeout  = "timeout"
	KHedge    = "hedge"
	KFallback = "fallback"
	KCache    = "cache"
)

// Delay kinds for retry.
const (
	DelayNone = iota
	DelayFixed
	DelayBackoff
	DelayRandom
)

type PolicySpec struct {
	Kind string `json:"kind"`

	// failure conditions (retry, breaker, fallback)
	Handle Cond `json:"handle,omitzero"`

	// retry
	MaxRetries   int     `json:"max_retries,omitempty"`
	MaxAttempts  bool    `json:"use_max_attempts,omitempty"` // configure through WithMaxAttempts(MaxRetries+1)
	Abort        Cond    `json:"abort,omitzero"`
	ReturnLast   bool    `json:"return_last,omitempty"`
	MaxDuration  D       `json:"max_duration,omitempty"`
	DelayKind    int     `json:"delay_kind,omitempty"`
	Delay        D       `json:"delay,omitempty"`
	MaxDelay     D       `json:"max_delay,omitempty"`
	Factor       float32 `json:"factor,omitempty"`
	DelayMin     D       `json:"delay_min,omitempty"`
	DelayMax     D       `json:"delay_max,omitempty"`
	DelayFn      []D     `json:"delay_fn,omitempty"`       // values returned by a delay function per call (cyclic); -1 falls through
	DelayFnTakes D       `json:"delay_fn_takes,omitempty"` // (fake) time the delay function itself spends before returning
	Jitter       D       `json:"jitter,omitempty"`
	JitterFactor float32 `json:"jitter_factor,omitempty"`
	PreReplaced  bool    `json:"pre_replaced,omitempty"` // retry: a backoff and then a random delay were configured on the builder first; the delay configuration above replaces them

	// breaker
	BrKind      int  `json:"br_kind,omitempty"` // 0 count (WithFailureThreshold), 1 ratio, 2 period count, 3 period rate
	FailThr     uint `json:"fail_thr,omitempty"`
	FailCap     uint `json:"fail_cap,omitempty"`
	RateThr     uint `json:"rate_thr,omitempty"`
	ExecThr     uint `json:"exec_thr,omitempty"`
	Period      D    `json:"period,omitempty"`
	SuccThr     uint `json:"succ_thr,omitempty"`
	SuccCap     uint `json:"succ_cap,omitempty"`
	NoListeners int  `json:"no_listeners,omitempty"` // breaker: bit mask of state listeners NOT registered (1 open, 2 half-open, 4 close, 8 generic)

	// limiter
	Smooth   bool `json:"smooth,omitempty"`
	Interval D    `json:"interval,omitempty"`
	MaxExec  uint `json:"max_exec,omitempty"`
	MaxWait  D    `json:"max_wait,omitempty"` // limiter and bulkhead

	// bulkhead
	MaxConc uint `json:"max_conc,omitempty"`

	// timeout
	Limit D `json:"limit,omitempty"`

	// hedge
	MaxHedges int  `json:"max_hedges,omitempty"`
	Cancel    Cond `json:"cancel,omitzero"`

	// fallback
	FbKind   int `json:"fb_kind,omitempty"` // 0 WithResult, 1 WithError, 2 WithFunc
	FbResult int `json:"fb_result,omitempty"`
	FbErr    int `json:"fb_err,omitempty"`
	FbDur    D   `json:"fb_dur,omitempty"`

	// cache
	Key     string         `json:"key,omitempty"`
	CacheIf []int          `json:"cache_if,omitempty"`
	Preload map[string]int `json:"preload,omitempty"`
}

// ---- function scripts -------------------------------------------------------

// Cancellation behaviours of the wrapped function.
const (
	CoopReturn = iota // returns as soon as it observes cancellation, with errSawCancel
	CoopIgnore        // never looks at cancellation
	CoopLate          // ignores cancellation for IgnoreFor, then returns
	CoopResult        // returns its scripted outcome as soon as it observes cancellation
)

type Outcome struct {
	Dur       D   `json:"dur,omitempty"`
	Result    int `json:"result,omitempty"`
	Err       int `json:"err,omitempty"`
	Coop      int `json:"coop,omitempty"`
	IgnoreFor D   `json:"ignore_for,omitempty"`
}

type Script struct {
	Outcomes []Outcome `json:"outcomes"`
	// ByAttempt: index the script by Execution.Attempts()-1 instead of the order of invocation starts
	ByAttempt bool `json:"by_attempt,omitempty"`
}

// ---- client operations ------------------------------------------------------

// Entry points.
const (
	EnRun = iota
	EnRunExec
	EnGet
	EnGetExec
	EnRunAsync
	EnRunExecAsync
	EnGetAsync
	EnGetExecAsync
)

func entryAsync(e int) bool    { return e >= EnRunAsync }
func entryWithExec(e int) bool { return e%2 == 1 }
func entryIsGet(e int) bool    { return e%4 >= 2 }

// Context kinds.
const (
	CtxNone        = iota // executor without WithContext
	CtxBackground         // WithContext(context.Background())
	CtxCancel             // cancellable context
	CtxDeadline           // context with deadline CtxD after the op starts
	CtxValue              // context carrying values (cache key CtxKey)
	CtxCancelValue        // cancellable + values
)

// Cancellation sources.
const (
	SrcNone = iota
	SrcCtxCancel
	SrcCtxDeadline
	SrcTimeout // an enclosing Timeout policy: not injected, part of the stack
	SrcResultCancel
)

// Reader operations on an ExecutionResult.
const (
	RdIsDone = iota
	RdDonePoll
	RdDoneWait
	RdGet
	RdResult
	RdError
	RdCancel
)

type ReaderOp struct {
	Kind int `json:"kind"`
	Wait D   `json:"wait,omitempty"` // sleep before the op
}

type Op struct {
	Kind string `json:"kind"` // "exec", "sleep", standalone calls "br.*", "bh.*", "rl.*"

	// exec
	Stack           int          `json:"stack,omitempty"`
	Entry           int          `json:"entry,omitempty"`
	Ctx             int          `json:"ctx,omitempty"`
	CtxD            D            `json:"ctx_d,omitempty"`
	CtxKey          string       `json:"ctx_key,omitempty"`
	CtxCause        bool         `json:"ctx_cause,omitempty"`         // the caller\'s context is cancelled / expires with a cause of its own (WithCancelCause, WithTimeoutCause)
	NoExecListeners int          `json:"no_exec_listeners,omitempty"` // executor-level listeners NOT registered (bit mask: 1 OnSuccess, 2 OnFailure, 4 OnDone)
	Script          int          `json:"script,omitempty"`
	NoWait          bool         `json:"no_wait,omitempty"` // async: do not wait for completion before the next op
	Readers         [][]ReaderOp `json:"readers,omitempty"` // async: extra reader tasks

	// cancellation injected by a separate task
	CancelSrc  int `json:"cancel_src,omitempty"`
	CancelStep int `json:"cancel_step,omitempty"` // fire when the global step counter reaches this value (sweep)
	CancelAt   D   `json:"cancel_at,omitempty"`   // else fire this long after the op started
	ProbeStep  int `json:"probe_step,omitempty"`  // async: a reader held until this scheduler step then polls IsDone/Done twice (sweep)

	// sleep / standalone
	Dur    D    `json:"dur,omitempty"`
	Pol    int  `json:"pol,omitempty"`
	N      uint `json:"n,omitempty"`
	Arg    int  `json:"arg,omitempty"`
	ExecID int  `json:"exec_id,omitempty"` // assigned by normalise()
}

type Client struct {
	Ops []Op `json:"ops"`
}

type Scenario struct {
	Family   string       `json:"family"`
	Policies []PolicySpec `json:"policies"`
	Stacks   [][]int      `json:"stacks"`
	Scripts  []Script     `json:"scripts"`
	Clients  []Client     `json:"clients"`
	NoProbes bool         `json:"no_probes,omitempty"`
	Adapter  *AdapterSpec `json:"adapter,omitempty"` // HTTP / gRPC adapter scenario (no generic clients)
	Note     string       `json:"note,omitempty"`
}

// normalise assigns execution ids (1-based, in client/op order).
func (sc *Scenario) normalise() {
	id := 1
	for ci := range sc.Clients {
		for oi := range sc.Clients[ci].Ops {
			op := &sc.Clients[ci].Ops[oi]
			if op.Kind == "exec" {
				op.ExecID = id
				id++
			}
		}
	}
}

func (sc *Scenario) numExecs() int {
	n := 0
	for _, c := range sc.Clients {
		for _, op := range c.Ops {
			if op.Kind == "exec" {
				n++
			}
		}
	}
	return n
}

func (sc *Scenario) opByExec(id int) *Op {
	for ci := range sc.Clients {
		for oi := range sc.Clients[ci].Ops {
			if sc.Clients[ci].Ops[oi].ExecID == id {
				return &sc.Clients[ci].Ops[oi]
			}
		}
	}
	return nil
}
