package harness

import (
	"fmt"
	"math"
	"time"

	"github.com/failsafe-go/failsafe-go/timeout"
)

func init() {
	register(&PropDef{ID: "C07", Level: "exploration", Gen: genC07, Check: checkC07})
	register(&PropDef{ID: "C09", Level: "exploration", Gen: genC09, Check: checkC09})
	register(&PropDef{ID: "C13", Level: "exploration", Gen: genC13, Check: checkC13})
}

// ---- C07 ----------------------------------------------------------------------

func genC07(r *Rnd, t Tier) *Case {
	unit := pick(r, time.Millisecond, time.Millisecond, time.Microsecond, time.Second)
	sc := &Scenario{Family: "c07"}
	L := time.Duration(r.Range(2, 30)) * unit
	if r.P(0.04) {
		L = time.Duration(r.Intn(2)) // a limit of zero or one nanosecond: exceeded at once unless the function returns at once
	}
	sc.Policies = []PolicySpec{{Kind: KTimeout, Limit: L}}
	kinds := []string{KTimeout}
	max := 3
	if t.Thorough {
		max = 4
	}
	for len(kinds) < max && r.P(0.55) {
		kinds = append(kinds, pick(r, KRetry, KFallback, KHedge, KBulkhead, KLimiter, KTimeout, KRetry))
	}
	shuffle(r, kinds)
	var stack []int
	first := true
	for _, k := range kinds {
		if k == KTimeout && first {
			first = false
			stack = append(stack, 0)
			continue
		}
		p := genPolicy(r, k, unit)
		if k == KTimeout {
			p.Limit = time.Duration(r.Range(2, 30)) * unit
		}
		if k == KRetry {
			p.MaxRetries = pick(r, 1, 2, 3)
			p.Abort = Cond{}
		}
		sc.Policies = append(sc.Policies, p)
		stack = append(stack, len(sc.Policies)-1)
	}
	sc.Stacks = [][]int{stack}
	var s Script
	for i, n := 0, r.Range(1, 4); i < n; i++ {
		o := genOutcome(r, unit, pick(r, 0.0, 0.5, 0.9))
		switch r.Intn(9) {
		case 0:
			o.Dur = L / 10
		case 1:
			o.Dur = L - 1
		case 2, 3:
			o.Dur = L
		case 4:
			o.Dur = L + 1
		case 5:
			o.Dur = L * 3
		case 6:
			o.Dur = -1 // until cancelled
		case 7:
			o.Dur = L * 2
			o.Coop = CoopLate
			o.IgnoreFor = time.Duration(r.Range(1, 5)) * unit
		default:
			o.Dur = L * 2
			o.Coop = CoopIgnore
		}
		if o.Coop == 0 {
			o.Coop = pick(r, CoopReturn, CoopResult)
		}
		s.Outcomes = append(s.Outcomes, o)
	}
	sc.Scripts = []Script{s}
	entry := pick(r, EnRunExec, EnGetExec, EnGetExec, EnGetExecAsync, EnRunExecAsync, EnGet)
	if entry == EnGet {
		for i := range s.Outcomes {
			if s.Outcomes[i].Dur < 0 {
				s.Outcomes[i].Dur = L * 2
			}
		}
	}
	sc.Clients = []Client{{Ops: []Op{{Kind: "exec", Entry: entry, Ctx: pick(r, CtxNone, CtxBackground, CtxValue)}}}}
	terminating(sc)
	return &Case{Sc: sc}
}

func refCanceled(e *Event) (isCanceled, chanClosed, ctxErr, ok bool) {
	if e == nil || e.Ref == nil {
		return
	}
	return e.Flags&FEndCanceled != 0, e.Flags&FEndChanClosed != 0, e.Flags&FEndCtxErr != 0, true
}

func checkC07(c *checkCtx) {
	if !checkProgress(c, "C07.") {
		return
	}
	sc := c.Res.Sc
	checkModels(c, "M.", "timeout.")
	for _, v := range c.Views {
		for _, n := range v.Nodes {
			p := v.policyAt(sc, n.Pos)
			if p == nil || p.Kind != KTimeout || n.Exit == nil || len(n.Children) != 1 {
				continue
			}
			ch := n.Children[0]
			pol := v.Stack[n.Pos]
			// listener calls of the timer this application started
			listeners := 0
			var lt time.Duration
			for _, e := range v.Listeners {
				if e.L != LTimeoutExceeded || e.Pos != pol || e.Task < 0 || e.Task >= len(c.Res.Tasks) {
					continue
				}
				tk := c.Res.Tasks[e.Task]
				if tk.Parent == n.Task && tk.StartStep >= n.Enter.Step && tk.StartStep <= n.Exit.Step {
					listeners++
					lt = e.T
				}
			}
			elapsed := n.Exit.T - n.Enter.T
			parentCanceled, _, _, ok1 := refCanceled(n.Enter)
			childCanceled, chClosed, ctxErr, ok2 := refCanceled(ch.Enter)
			if !ok1 || !ok2 {
				continue
			}
			isB := n.Exit.Val == nil && n.Exit.Err == timeout.ErrExceeded
			innerB := ch.Exit != nil && ch.Exit.Val == nil && ch.Exit.Err == timeout.ErrExceeded
			if isB && innerB && listeners == 0 {
				isB = false // an inner Timeout's ErrExceeded passed through unchanged
			}
			if elapsed == p.Limit {
				c.cov("c07.return_at_exact_limit")
			}
			if isB {
				c.cov("c07.outcome_exceeded")
				if listeners != 1 {
					c.fail("C07.exclusive", "B-listeners", fmt.Sprintf("exec %d: Timeout at position %d returned ErrExceeded but its listener was called %d times", v.ID, n.Pos, listeners))
				}
				if !childCanceled || !chClosed || !ctxErr {
					c.fail("C07.exclusive", "B-not-canceled", fmt.Sprintf("exec %d: Timeout at position %d returned ErrExceeded but the execution inside it is not cancelled (IsCanceled=%v Canceled-closed=%v ctx.Err-set=%v)", v.ID, n.Pos, childCanceled, chClosed, ctxErr))
				}
				if elapsed < p.Limit || (listeners == 1 && lt-n.Enter.T < p.Limit) {
					c.fail("C07.early", "early", fmt.Sprintf("exec %d: Timeout at position %d with limit %v produced ErrExceeded after %v", v.ID, n.Pos, p.Limit, elapsed))
				}
			} else {
				c.cov("c07.outcome_inner_result")
				if listeners != 0 {
					c.fail("C07.exclusive", "A-listener", fmt.Sprintf("exec %d: Timeout at position %d returned the inner result %s but its listener was called %d time(s)", v.ID, n.Pos, outcomeStr(n.Exit), listeners))
				}
				if childCanceled && !parentCanceled {
					c.fail("C07.exclusive", "A-canceled", fmt.Sprintf("exec %d: Timeout at position %d returned the inner result %s but cancelled the execution inside it", v.ID, n.Pos, outcomeStr(n.Exit)))
				}
				if ch.Exit != nil && ch.Exit.T-n.Enter.T > p.Limit && !parentCanceled {
					c.fail("C07.late", "late", fmt.Sprintf("exec %d: the layer inside the Timeout at position %d returned %v after it was entered (limit %v) yet the inner result %s was returned", v.ID, n.Pos, ch.Exit.T-n.Enter.T, p.Limit, outcomeStr(n.Exit)))
				}
				// a function that only returns on cancellation must end in ErrExceeded
				if !parentCanceled {
					for _, fe := range subtreeFnEnds(n) {
						if fe.Seq > n.Enter.Seq && fe.Seq < n.Exit.Seq && fe.L == 1 && fnBlocksUntilCancel(sc, v, fe) && onlyThisTimeoutBetween(sc, v, n.Pos) {
							c.fail("C07.blocked-fn", "blocked", fmt.Sprintf("exec %d: the function returned only because it was cancelled, yet the Timeout at position %d returned %s instead of ErrExceeded", v.ID, n.Pos, outcomeStr(n.Exit)))
						}
					}
				}
			}
		}
	}
}

func subtreeFnEnds(n *Node) []*Event {
	var out []*Event
	if n.FnEnd != nil {
		out = append(out, n.FnEnd)
	}
	for _, ch := range n.Children {
		out = append(out, subtreeFnEnds(ch)...)
	}
	return out
}

func fnBlocksUntilCancel(sc *Scenario, v *ExecView, fe *Event) bool {
	s := sc.Scripts[v.Op.Script]
	idx := int(fe.B)
	return idx < len(s.Outcomes) && s.Outcomes[idx].Dur < 0
}

// onlyThisTimeoutBetween: between position pos and the function there is no
// other policy that cancels attempts (timeout, hedge).
func onlyThisTimeoutBetween(sc *Scenario, v *ExecView, pos int) bool {
	for q := pos + 1; q < len(v.Stack); q++ {
		k := v.policyAt(sc, q).Kind
		if k == KTimeout || k == KHedge || k == KFallback || k == KRetry {
			return false
		}
	}
	return true
}

// ---- C09 ----------------------------------------------------------------------

func genC09(r *Rnd, t Tier) *Case {
	unit := ms
	sc := &Scenario{Family: "c09"}
	h := genHedge(r, unit)
	h.MaxHedges = pick(r, 0, 1, 1, 2, 2, 3)
	if r.P(0.2) {
		// a delay function whose later values are larger than the first
		a := r.Range(1, 6)
		h.DelayFn = []D{time.Duration(a) * unit, time.Duration(a*r.Range(2, 10)) * unit, time.Duration(r.Range(1, 30)) * unit}
		if h.MaxHedges < 2 {
			h.MaxHedges = 2
		}
	}
	if t.Thorough && r.P(0.2) {
		h.MaxHedges = 4
	}
	sc.Policies = []PolicySpec{h}
	stack := []int{0}
	if r.P(0.3) {
		k := pick(r, KRetry, KTimeout, KFallback)
		p := genPolicy(r, k, unit)
		if k == KTimeout {
			p.Limit = time.Duration(r.Range(20, 80)) * unit
		}
		sc.Policies = append(sc.Policies, p)
		stack = append([]int{1}, stack...)
	}
	if r.P(0.15) {
		// something inside the hedge
		p := genPolicy(r, pick(r, KTimeout, KFallback), unit)
		sc.Policies = append(sc.Policies, p)
		stack = append(stack, len(sc.Policies)-1)
	}
	var pre []Op
	switch r.Intn(10) {
	case 0:
		// time spent waiting for a permit outside the hedge, within the same attempt
		sc.Policies = append(sc.Policies, PolicySpec{Kind: KLimiter, Smooth: true, Interval: time.Duration(r.Range(5, 30)) * unit, MaxWait: 1000 * unit})
		stack = append([]int{len(sc.Policies) - 1}, stack...)
		pre = append(pre, Op{Kind: "rl.try", Pol: len(sc.Policies) - 1, N: 1})
	case 1:
		// a hedge inside a hedge: the inner one begins later than the attempt it belongs to
		o := genHedge(r, unit)
		o.MaxHedges = 1
		sc.Policies = append(sc.Policies, o)
		stack = append([]int{len(sc.Policies) - 1}, stack...)
	}
	sc.Stacks = [][]int{stack}
	// per-attempt durations and outcomes so that every completion order occurs
	var s Script
	s.ByAttempt = false
	n := h.MaxHedges + 1 + r.Range(0, 2)
	base := h.Delay
	for i := 0; i < n; i++ {
		o := genOutcome(r, unit, pick(r, 0.2, 0.6))
		switch r.Intn(6) {
		case 0:
			o.Dur = base // completes exactly when the next hedge starts
		case 1:
			o.Dur = base * time.Duration(r.Range(1, 4))
		case 2:
			o.Dur = base/2 + 1
		default:
			o.Dur = time.Duration(r.Range(0, 40)) * unit
		}
		o.Coop = pick(r, CoopReturn, CoopResult, CoopIgnore, CoopReturn)
		s.Outcomes = append(s.Outcomes, o)
	}
	sc.Scripts = []Script{s}
	sc.Clients = []Client{{Ops: append(pre, Op{Kind: "exec", Entry: pick(r, EnGetExec, EnGetExec, EnRunExec, EnGetExecAsync, EnGet), Ctx: pick(r, CtxNone, CtxBackground)})}}
	terminating(sc)
	return &Case{Sc: sc}
}

func checkC09(c *checkCtx) {
	if !checkProgress(c, "C09.") {
		return
	}
	sc := c.Res.Sc
	checkModels(c, "M.", "hedge.")
	for _, v := range c.Views {
		for _, n := range v.Nodes {
			p := v.policyAt(sc, n.Pos)
			if p == nil || p.Kind != KHedge || n.Exit == nil {
				continue
			}
			pol := v.Stack[n.Pos]
			kids := n.Children
			if canceledAt(n.Exit) || canceledAt(n.Enter) {
				continue
			}
			// delays consulted inside this application
			var delays []time.Duration
			if len(p.DelayFn) > 0 {
				for _, e := range v.Events {
					if e.Kind == EvDelayFn && e.Pos == pol && e.Seq > n.Enter.Seq && e.Seq < n.Exit.Seq && e.Task == n.Task {
						delays = append(delays, time.Duration(e.A))
					}
				}
			}
			if len(p.DelayFn) > 0 && len(delays) < len(kids)-1 {
				c.fail("C09.spacing", "delay-not-consulted", fmt.Sprintf("exec %d: %d hedges were started but the delay function was consulted only %d time(s): a hedge started without its own delay", v.ID, len(kids)-1, len(delays)))
			}
			cum := time.Duration(0)
			for k := 1; k < len(kids); k++ {
				d := p.Delay
				if len(p.DelayFn) > 0 {
					if k-1 < len(delays) {
						d = delays[k-1]
					} else {
						d = 0
					}
				}
				cum += d
				if kids[k].Enter.T-n.Enter.T < cum {
					c.fail("C09.spacing", "early-hedge", fmt.Sprintf("exec %d: hedge %d started %v after the hedged execution began, before the first %d hedge delays (%v) had elapsed", v.ID, k, kids[k].Enter.T-n.Enter.T, k, cum))
				}
			}
			if len(kids) > 1 {
				c.cov("c09.hedges_started")
			}
			// OnHedge once per hedge
			nh := 0
			for _, e := range v.Listeners {
				if e.L == LHedge && e.Pos == pol && e.Seq > n.Enter.Seq && e.Seq < n.Exit.Seq && e.Task == n.Task {
					nh++
				}
			}
			if len(kids) > 0 && nh != len(kids)-1 {
				c.fail("C09.onhedge", "count", fmt.Sprintf("exec %d: %d attempts were started but OnHedge fired %d times", v.ID, len(kids), nh))
			}
			// winner
			var win *Node
			for _, ch := range kids {
				if ch.Exit != nil && ch.Exit.Seq < n.Exit.Seq && sameOutcome(n.Exit.Val, n.Exit.Err, ch.Exit.Val, ch.Exit.Err) {
					if win == nil {
						win = ch
					}
				}
			}
			if win == nil {
				continue // reported by the hedge model
			}
			// first cancellable result in production order
			var firstC *Node
			amb := false
			for _, ch := range kids {
				if ch.Exit == nil || ch.Exit.Seq > n.Exit.Seq {
					continue
				}
				cm := Yes
				if !p.Cancel.empty() {
					cm = anyMatch(p.Cancel, ch.Exit.Val, ch.Exit.Err)
				}
				if cm == Either {
					amb = true
				}
				if cm == Yes && (firstC == nil || ch.Exit.Seq < firstC.Exit.Seq) {
					firstC = ch
				}
			}
			if amb {
				c.cov("ambiguous.classify")
				continue
			}
			if firstC != nil {
				c.cov("c09.cancellable_result")
				if !sameOutcome(n.Exit.Val, n.Exit.Err, firstC.Exit.Val, firstC.Exit.Err) && n.Exit.T > firstC.Exit.T {
					c.fail("C09.winner", "not-first", fmt.Sprintf("exec %d: attempt result %s matched the cancel conditions at t=%v but the hedge policy returned %s at t=%v", v.ID, outcomeStr(firstC.Exit), firstC.Exit.T, outcomeStr(n.Exit), n.Exit.T))
				}
				if n.Exit.T != firstC.Exit.T {
					// returned later than the first cancellable result was produced: it waited for other attempts
					c.fail("C09.winner", "waited", fmt.Sprintf("exec %d: a result matching the cancel conditions was produced at t=%v but the hedge policy returned only at t=%v", v.ID, firstC.Exit.T, n.Exit.T))
				}
			} else {
				c.cov("c09.no_cancellable_result")
				finished := 0
				for _, ch := range kids {
					if ch.Exit != nil && ch.Exit.Seq < n.Exit.Seq {
						finished++
					}
				}
				if finished != p.MaxHedges+1 {
					c.fail("C09.winner", "final-early", fmt.Sprintf("exec %d: no attempt result matched the cancel conditions, yet the hedge policy returned %s after %d of %d attempts had finished", v.ID, outcomeStr(n.Exit), finished, p.MaxHedges+1))
				}
			}
			// none started after a result matching the cancel conditions was produced (same instant: either order)
			if firstC != nil {
				for k, ch := range kids {
					if ch.Enter.T > firstC.Exit.T {
						c.fail("C09.late-start", "after-accept", fmt.Sprintf("exec %d: attempt %d started at t=%v after a result matching the cancel conditions had been produced at t=%v", v.ID, k, ch.Enter.T, firstC.Exit.T))
					}
					if ch.Enter.T == firstC.Exit.T && ch != firstC && ch.Enter.Seq > firstC.Exit.Seq {
						c.cov("c09.tie_hedge_start_vs_result")
					}
				}
			}
			// at the moment it returns: every other started attempt cancelled, the winner not
			cancelledNow := map[int]bool{}
			for _, q := range n.Exit.Aux {
				cancelledNow[q] = true
			}
			// several candidates may carry the same outcome as the returned one; the winner is one of them
			winnerOK := false
			nNotCanceled := 0
			for _, ch := range kids {
				var cz bool
				if ch.Enter.Seq < n.Exit.Seq {
					cz = cancelledNow[ch.Enter.Seq]
				} else {
					// the attempt's goroutine got going only after the hedge policy returned: it must find itself cancelled
					cz = ch.Enter.Flags&FIsCanceled != 0
				}
				same := ch.Exit != nil && ch.Exit.Seq < n.Exit.Seq && sameOutcome(n.Exit.Val, n.Exit.Err, ch.Exit.Val, ch.Exit.Err)
				if same && !cz {
					winnerOK = true
				}
				if !cz {
					nNotCanceled++
				}
			}
			if !winnerOK {
				c.fail("C09.cancel-state", "winner-canceled", fmt.Sprintf("exec %d: when the hedge policy returned %s the winning attempt's execution was cancelled", v.ID, outcomeStr(n.Exit)))
			}
			if nNotCanceled > 1 {
				c.fail("C09.cancel-state", "loser-not-canceled", fmt.Sprintf("exec %d: when the hedge policy returned, %d of %d started attempts were not cancelled (only the winner may be)", v.ID, nNotCanceled, len(kids)))
			}
			if len(kids) > 1 {
				c.cov("c09.losers_cancel_checked")
			}
		}
	}
}

// ---- C13 ----------------------------------------------------------------------

func genC13(r *Rnd, t Tier) *Case {
	unit := pick(r, time.Microsecond, time.Millisecond, time.Second, time.Minute, time.Hour, time.Millisecond)
	sc := &Scenario{Family: "c13"}
	p := PolicySpec{Kind: KRetry, MaxRetries: r.Range(1, 12)}
	switch r.Intn(5) {
	case 0:
		p.DelayKind = DelayFixed
		p.Delay = time.Duration(r.Range(1, 50)) * unit
	case 1, 2:
		p.DelayKind = DelayBackoff
		p.Delay = time.Duration(r.Range(1, 20)) * unit
		p.MaxDelay = p.Delay * time.Duration(r.Range(2, 60))
		p.Factor = pick[float32](r, 2, 1.5, 3, 4, 1.01, 1.1, 2.5)
	case 3:
		p.DelayKind = DelayRandom
		p.DelayMin = time.Duration(r.Range(1, 20)) * unit
		p.DelayMax = p.DelayMin + time.Duration(r.Range(1, 50))*unit
	default:
		p.DelayFn = []D{time.Duration(r.Range(0, 30)) * unit, time.Duration(r.Range(1, 30)) * unit, -1}
		if r.P(0.3) {
			p.DelayFnTakes = time.Duration(r.Range(1, 20)) * unit
		}
		if r.Bool() {
			p.DelayKind = DelayBackoff
			p.Delay = time.Duration(r.Range(1, 20)) * unit
			p.MaxDelay = p.Delay * 16
			p.Factor = 2
		} else if r.Bool() {
			p.DelayKind = DelayFixed
			p.Delay = time.Duration(r.Range(1, 20)) * unit
		}
	}
	if r.P(0.5) {
		if r.Bool() {
			p.Jitter = time.Duration(r.Range(1, 10)) * unit / 4
			if p.Jitter == 0 {
				p.Jitter = 1
			}
		} else {
			p.JitterFactor = pick[float32](r, 0.1, 0.25, 0.5, 0.9)
		}
	}
	if r.P(0.35) || (p.DelayFnTakes > 0 && r.P(0.7)) {
		p.MaxDuration = time.Duration(r.Range(10, 300)) * unit
	}
	if p.DelayKind != DelayNone && r.P(0.2) {
		p.PreReplaced = true // the builder first got a backoff and a random delay, both replaced by the configuration above
	}
	sc.Policies = []PolicySpec{p}
	sc.Stacks = [][]int{{0}}
	var s Script
	for i := 0; i < 13; i++ {
		o := Outcome{Err: EA}
		if r.P(0.3) {
			o.Dur = time.Duration(r.Range(1, 5)) * unit
		}
		s.Outcomes = append(s.Outcomes, o)
	}
	sc.Scripts = []Script{s}
	sc.Clients = []Client{{Ops: []Op{{Kind: "exec", Entry: pick(r, EnGet, EnGetExec, EnRun, EnGetAsync)}}}}
	c := &Case{Sc: sc}
	return c
}

const floatTol = 1.0 / (1 << 20)

func checkC13(c *checkCtx) {
	if !checkProgress(c, "C13.") {
		return
	}
	sc := c.Res.Sc
	for _, v := range c.Views {
		for _, n := range v.Nodes {
			p := v.policyAt(sc, n.Pos)
			if p == nil || p.Kind != KRetry || n.Exit == nil {
				continue
			}
			pol := v.Stack[n.Pos]
			var sched []*Event
			var fnVals []*Event
			for _, e := range v.Events {
				if e.Seq < n.Enter.Seq || e.Seq > n.Exit.Seq || e.Task != n.Task || e.Pos != pol {
					continue
				}
				if e.Kind == EvListener && e.L == LRetryScheduled {
					sched = append(sched, e)
				}
				if e.Kind == EvDelayFn {
					fnVals = append(fnVals, e)
				}
			}
			k := 0 // number of delays taken from the fixed/backoff path so far
			for i, ev := range sched {
				d := time.Duration(ev.A)
				c.cov("c13.delays_checked")
				if d < 0 {
					c.fail("C13.envelope", "negative", fmt.Sprintf("exec %d: retry delay %d is negative: %v", v.ID, i, d))
					continue
				}
				var lo, hi float64
				usedFn := false
				if len(p.DelayFn) > 0 && i < len(fnVals) && fnVals[i].A != -1 {
					lo, hi = float64(fnVals[i].A), float64(fnVals[i].A)
					usedFn = true
				}
				if !usedFn {
					switch p.DelayKind {
					case DelayFixed:
						lo, hi = float64(p.Delay), float64(p.Delay)
					case DelayBackoff:
						b := float64(p.Delay) * math.Pow(float64(p.Factor), float64(k))
						if b > float64(p.MaxDelay) {
							b = float64(p.MaxDelay)
						}
						tol := b*floatTol*float64(k+1) + float64(k+1)
						lo, hi = b-tol, b+tol
						if hi > float64(p.MaxDelay) {
							hi = float64(p.MaxDelay)
						}
						k++
					case DelayRandom:
						lo, hi = float64(p.DelayMin), float64(p.DelayMax)
					default:
						lo, hi = 0, 0
					}
				}
				baseZero := lo == 0 && hi == 0
				if !baseZero {
					if p.Jitter != 0 {
						lo -= float64(p.Jitter)
						hi += float64(p.Jitter)
					} else if p.JitterFactor != 0 {
						lo = lo*(1-float64(p.JitterFactor)) - lo*floatTol - 1
						hi = hi*(1+float64(p.JitterFactor)) + hi*floatTol + 1
					}
				}
				if p.MaxDuration != 0 {
					rem := float64(p.MaxDuration - (ev.T - ev.Start))
					if hi > rem {
						hi = rem
						c.cov("c13.clamped_by_max_duration")
					}
					if lo > rem {
						lo = rem
					}
				}
				if lo < 0 {
					lo = 0
				}
				if hi < 0 {
					hi = 0
				}
				if float64(d) < lo-1 || float64(d) > hi+1 {
					c.fail("C13.envelope", "outside", fmt.Sprintf("exec %d: retry delay %d is %v, outside its envelope [%v, %v] (config: kind=%d delay=%v max=%v factor=%v range=[%v,%v] jitter=%v jitterFactor=%v maxDuration=%v)", v.ID, i, d, time.Duration(lo), time.Duration(hi), p.DelayKind, p.Delay, p.MaxDelay, p.Factor, p.DelayMin, p.DelayMax, p.Jitter, p.JitterFactor, p.MaxDuration))
				}
				// the next attempt starts exactly when the scheduled delay has elapsed
				var next *Node
				for _, ch := range n.Children {
					if ch.Enter.Seq > ev.Seq {
						next = ch
						break
					}
				}
				if next != nil && !canceledAt(next.Enter) {
					if gap := next.Enter.T - ev.T; gap < d {
						c.fail("C13.wait", "early", fmt.Sprintf("exec %d: the attempt after retry delay %d (%v) started only %v after it was scheduled", v.ID, i, d, gap))
					} else if gap > d {
						c.fail("C13.wait", "late", fmt.Sprintf("exec %d: the attempt after retry delay %d (%v) started %v after it was scheduled", v.ID, i, d, gap))
					}
				}
			}
		}
	}
}
