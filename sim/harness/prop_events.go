package harness

import (
	"context"
	"errors"
	"fmt"
	"time"

	"github.com/failsafe-go/failsafe-go/bulkhead"
	"github.com/failsafe-go/failsafe-go/ratelimiter"
	"github.com/failsafe-go/failsafe-go/timeout"
)

func init() {
	register(&PropDef{ID: "C16", Stalls: true, Level: "exploration", Gen: genC16, Check: checkC16})
	register(&PropDef{ID: "C17", Level: "exploration", Gen: genC17, Check: checkC17})
}

// genC16: compositions as in C01; a third of the cases run two or three
// clients concurrently through the same policy instances and listeners.
func genC16(r *Rnd, t Tier) *Case {
	c := genC01(r, t)
	sc := c.Sc
	sc.Family = "c16"
	if r.P(0.3) {
		// only a subset of the executor-level listeners is registered
		for ci := range sc.Clients {
			for oi := range sc.Clients[ci].Ops {
				if op := &sc.Clients[ci].Ops[oi]; op.Kind == "exec" {
					op.NoExecListeners = r.Range(1, 7)
				}
			}
		}
	}
	for i := range sc.Policies {
		if sc.Policies[i].Kind == KBreaker && r.P(0.4) {
			sc.Policies[i].NoListeners = r.Intn(8) // some specific listeners absent; the generic one stays
		}
	}
	if r.P(0.35) {
		n := r.Range(1, 2)
		for i := 0; i < n; i++ {
			var ops []Op
			for j, ne := 0, r.Range(1, 2); j < ne; j++ {
				sc.Scripts = append(sc.Scripts, genScript(r, ms, r.Range(1, 4), pick(r, 0.3, 0.7)))
				ops = append(ops, Op{Kind: "exec", Script: len(sc.Scripts) - 1, Entry: r.Intn(8), Ctx: pick(r, CtxNone, CtxBackground)})
			}
			sc.Clients = append(sc.Clients, Client{Ops: ops})
		}
		terminating(sc)
	}
	return c
}

func genC17(r *Rnd, t Tier) *Case {
	c := genC01(r, t)
	c.Sc.Family = "c17"
	sc := c.Sc
	// statistics are observable only through the Execution: prefer those entry points
	for ci := range sc.Clients {
		for oi := range sc.Clients[ci].Ops {
			op := &sc.Clients[ci].Ops[oi]
			if op.Kind == "exec" && r.P(0.8) {
				op.Entry |= 1
			}
		}
	}
	return c
}

// instanceRepeated reports whether the policy instance at pos occurs more than once in the stack.
func instanceRepeated(v *ExecView, pos int) bool {
	for q, pi := range v.Stack {
		if q != pos && pi == v.Stack[pos] {
			return true
		}
	}
	return false
}

// nodeListeners returns the listener events of the policy instance of node n
// that were emitted by n's own task during the call.
func nodeListeners(v *ExecView, n *Node, l int) []*Event {
	var out []*Event
	pol := v.Stack[n.Pos]
	for _, e := range v.Listeners {
		if e.L == l && e.Pos == pol && e.Task == n.Task && e.Seq > n.Enter.Seq && (n.Exit == nil || e.Seq < n.Exit.Seq) {
			out = append(out, e)
		}
	}
	return out
}

func checkC16(c *checkCtx) {
	if !checkProgress(c, "C16.") {
		return
	}
	sc := c.Res.Sc
	// run the models silently to annotate the call tree with each layer's classifications
	checkModels(c, "M.", "<none>")
	fail := func(v *ExecView, id, sig, msg string) {
		c.fail("C16."+id, sig, fmt.Sprintf("exec %d: %s", v.ID, msg))
	}
	for _, v := range c.Views {
		if v.OpEnd == nil || v.Root == nil {
			continue
		}
		// executor-level events
		succ, failn, done := v.listeners(-1, LExecSuccess), v.listeners(-1, LExecFailure), v.listeners(-1, LExecDone)
		if mask := v.Op.NoExecListeners; mask != 0 {
			// only some of the executor's listeners are registered: each registered one fires exactly when it
			// would have fired with all of them registered, judged by the verdict the outermost layer returned
			if v.Root.Exit == nil {
				continue
			}
			c.cov("c16.executor_events_partial_registration")
			success := v.Root.Exit.Flags&FSuccessAll != 0
			want := func(bit int, applies bool) int {
				if mask&bit == 0 && applies {
					return 1
				}
				return 0
			}
			if ws, wf, wd := want(1, success), want(2, !success), want(4, true); len(succ) != ws || len(failn) != wf || len(done) != wd {
				fail(v, "executor", "count-partial", fmt.Sprintf("with OnSuccess registered=%v OnFailure registered=%v OnDone registered=%v and an execution that ended %s (%s): OnSuccess=%d OnFailure=%d OnDone=%d, expected %d/%d/%d",
					mask&1 == 0, mask&2 == 0, mask&4 == 0, map[bool]string{true: "successfully", false: "in failure"}[success], outcomeStr(v.Root.Exit), len(succ), len(failn), len(done), ws, wf, wd))
			}
		} else if len(done) != 1 || len(succ)+len(failn) != 1 {
			fail(v, "executor", "count", fmt.Sprintf("OnDone=%d OnSuccess=%d OnFailure=%d; every execution produces exactly one OnDone and exactly one of OnSuccess/OnFailure", len(done), len(succ), len(failn)))
		} else {
			c.cov("c16.executor_events_checked")
			val := v.OpEnd.Val
			if !entryIsGet(v.Op.Entry) && !entryAsync(v.Op.Entry) {
				val = done[0].Val
			}
			if !sameOutcome(done[0].Val, done[0].Err, val, v.OpEnd.Err) {
				fail(v, "executor", "done-result", fmt.Sprintf("OnDone reported (%s, %s) but the caller received %s", fmtVal(done[0].Val), fmtErr(done[0].Err), outcomeStr(v.OpEnd)))
			}
			other := append(succ, failn...)[0]
			if !sameOutcome(other.Val, other.Err, done[0].Val, done[0].Err) {
				fail(v, "executor", "verdict-result", "OnSuccess/OnFailure and OnDone reported different results")
			}
			if done[0].Seq < other.Seq {
				c.cov("c16.done_before_verdict")
			}
		}
		for _, n := range v.Nodes {
			p := v.policyAt(sc, n.Pos)
			if p == nil || n.Exit == nil || instanceRepeated(v, n.Pos) {
				continue
			}
			cnt := func(l int) int { return len(nodeListeners(v, n, l)) }
			canceled := canceledAt(n.Exit) || canceledAt(n.Enter)
			switch p.Kind {
			case KRetry:
				if canceled {
					continue
				}
				nRetry, nSched := cnt(LRetry), cnt(LRetryScheduled)
				if nRetry != len(n.Children)-1 && len(n.Children) > 0 {
					fail(v, "retry", "onretry", fmt.Sprintf("retry at position %d started %d retries but OnRetry fired %d times", n.Pos, len(n.Children)-1, nRetry))
				}
				if nSched != nRetry {
					fail(v, "retry", "scheduled", fmt.Sprintf("retry at position %d: OnRetryScheduled fired %d times for %d retries", n.Pos, nSched, nRetry))
				}
				if len(n.Children) > 1 {
					c.cov("c16.retry_events_checked")
				}
				nEx, nAb := cnt(LRetriesExceeded), cnt(LAbort)
				if nEx > 1 || nAb > 1 {
					fail(v, "retry", "dup", fmt.Sprintf("retry at position %d: OnRetriesExceeded=%d OnAbort=%d in one call", n.Pos, nEx, nAb))
				}
				if n.Modelled {
					wantAb := 0
					if n.Aborted {
						wantAb = 1
					}
					if nAb != wantAb {
						fail(v, "retry", "abort", fmt.Sprintf("retry at position %d: aborted=%v but OnAbort fired %d times", n.Pos, n.Aborted, nAb))
					}
					wantEx := 0
					if n.Exceeded && !n.Aborted {
						wantEx = 1
					}
					if nEx != wantEx {
						fail(v, "retry", "exceeded", fmt.Sprintf("retry at position %d: exceeded=%v aborted=%v but OnRetriesExceeded fired %d times", n.Pos, n.Exceeded, n.Aborted, nEx))
					}
				}
				checkPolicyVerdictEvents(c, v, n, fail)
			case KBreaker:
				checkPolicyVerdictEvents(c, v, n, fail)
			case KFallback:
				if canceled {
					continue
				}
				checkPolicyVerdictEvents(c, v, n, fail)
				if n.Modelled {
					want := 0
					if n.Applied {
						want = 1
					}
					if got := cnt(LFallbackExecuted); got != want {
						fail(v, "fallback", "executed", fmt.Sprintf("fallback at position %d: applied=%v but OnFallbackExecuted fired %d times", n.Pos, n.Applied, got))
					}
				}
			case KBulkhead:
				want := 0
				if len(n.Children) == 0 && errors.Is(n.Exit.Err, bulkhead.ErrFull) {
					want = 1
				}
				if got := cnt(LFull); got != want {
					fail(v, "bulkhead", "onfull", fmt.Sprintf("bulkhead at position %d: rejected-with-ErrFull=%v but OnFull fired %d times", n.Pos, want == 1, got))
				}
				if want == 1 {
					c.cov("c16.onfull_checked")
				}
			case KLimiter:
				want := 0
				if len(n.Children) == 0 && errors.Is(n.Exit.Err, ratelimiter.ErrExceeded) {
					want = 1
				}
				if got := cnt(LRateLimitExceeded); got != want {
					fail(v, "limiter", "exceeded", fmt.Sprintf("rate limiter at position %d: rejected=%v but OnRateLimitExceeded fired %d times", n.Pos, want == 1, got))
				}
				if want == 1 {
					c.cov("c16.ratelimit_checked")
				}
			case KHedge:
				if canceled {
					// cancelled on the way: hedges already announced may outnumber nothing - every OnHedge still
					// belongs to an attempt that was started
					if got := cnt(LHedge); len(n.Children) > 0 && got > len(n.Children)-1 {
						c.cov("c16.onhedge_checked_cancelled")
						fail(v, "hedge", "onhedge-without-hedge", fmt.Sprintf("hedge at position %d (cancelled) started %d hedges but OnHedge fired %d times", n.Pos, len(n.Children)-1, got))
					}
					continue
				}
				if got := cnt(LHedge); len(n.Children) > 0 && got != len(n.Children)-1 {
					fail(v, "hedge", "onhedge", fmt.Sprintf("hedge at position %d started %d hedges but OnHedge fired %d times", n.Pos, len(n.Children)-1, got))
				}
			case KTimeout:
				// listener runs in the timer task
				pol := v.Stack[n.Pos]
				got := 0
				for _, e := range v.Listeners {
					if e.L == LTimeoutExceeded && e.Pos == pol && e.Task >= 0 && e.Task < len(c.Res.Tasks) {
						tk := c.Res.Tasks[e.Task]
						if tk.Parent == n.Task && tk.StartStep >= n.Enter.Step && tk.StartStep <= n.Exit.Step {
							got++
						}
					}
				}
				own := n.Exit.Val == nil && n.Exit.Err == timeout.ErrExceeded && !(len(n.Children) == 1 && n.Children[0].Exit != nil && n.Children[0].Exit.Err == timeout.ErrExceeded)
				if own && got != 1 {
					fail(v, "timeout", "listener", fmt.Sprintf("timeout at position %d exceeded but OnTimeoutExceeded fired %d times", n.Pos, got))
				}
				if got > 1 {
					fail(v, "timeout", "listener-dup", fmt.Sprintf("timeout at position %d: OnTimeoutExceeded fired %d times", n.Pos, got))
				}
				if !(n.Exit.Val == nil && n.Exit.Err == timeout.ErrExceeded) && got != 0 {
					// the event was announced but the Timeout let the inner result through: no timeout happened
					fail(v, "timeout", "listener-spurious", fmt.Sprintf("timeout at position %d returned the inner result %s, yet OnTimeoutExceeded fired %d time(s)", n.Pos, outcomeStr(n.Exit), got))
				}
			case KCache:
				pol := v.Stack[n.Pos]
				var gets, sets int
				hit := false
				for _, e := range v.Events {
					if e.Seq < n.Enter.Seq || e.Seq > n.Exit.Seq || e.Task != n.Task || e.Pos != pol {
						continue
					}
					if e.Kind == EvCacheGet {
						gets++
						if e.A == 1 {
							hit = true
						}
					}
					if e.Kind == EvCacheSet {
						sets++
					}
				}
				nHit, nMiss, nCached := cnt(LCacheHit), cnt(LCacheMiss), cnt(LCached)
				wantHit := 0
				if hit {
					wantHit = 1
				}
				if nHit != wantHit {
					fail(v, "cache", "hit", fmt.Sprintf("cache at position %d: hit=%v but OnCacheHit fired %d times", n.Pos, hit, nHit))
				}
				if nCached != sets {
					fail(v, "cache", "cached", fmt.Sprintf("cache at position %d: %d stores but OnResultCached fired %d times", n.Pos, sets, nCached))
				}
				if hit && nMiss != 0 {
					fail(v, "cache", "miss-on-hit", fmt.Sprintf("cache at position %d: OnCacheMiss fired on a hit", n.Pos))
				}
				if !hit && gets == 1 && nMiss != 1 {
					fail(v, "cache", "miss", fmt.Sprintf("cache at position %d: lookup missed but OnCacheMiss fired %d times", n.Pos, nMiss))
				}
				if gets == 0 && nMiss > 1 {
					fail(v, "cache", "miss-dup", fmt.Sprintf("cache at position %d: OnCacheMiss fired %d times", n.Pos, nMiss))
				}
				c.cov("c16.cache_events_checked")
			}
		}
	}
	// breaker transitions: a connected path from closed, specific and generic listeners paired
	for pi, p := range sc.Policies {
		if p.Kind != KBreaker {
			continue
		}
		state := int64(0)
		var pendSpec, pendGen *Event // a specific / generic listener call still waiting for its counterpart (either order)
		n := 0
		registered := func(newState int64) bool { // is the specific listener for transitions into newState registered?
			return p.NoListeners&map[int64]int{1: 1, 2: 2, 0: 4}[newState] == 0
		}
		for i := range c.Res.Log.Ev {
			e := &c.Res.Log.Ev[i]
			if e.Kind != EvListener || e.Pos != pi || e.L < LBrOpen || e.L > LBrStateChanged {
				continue
			}
			if e.L != LBrStateChanged {
				want := map[int]int64{LBrOpen: 1, LBrHalfOpen: 2, LBrClose: 0}[e.L]
				if e.B != want {
					c.fail("C16.breaker", "wrong-listener", fmt.Sprintf("breaker %d: %s called for a transition to state %d", pi, listenerNames[e.L], e.B))
				}
				switch {
				case pendGen != nil && pendGen.A == e.A && pendGen.B == e.B:
					pendGen = nil
				case pendSpec != nil || pendGen != nil:
					c.fail("C16.breaker", "unpaired", fmt.Sprintf("breaker %d: %s (%d->%d) has no matching OnStateChanged call", pi, listenerNames[e.L], e.A, e.B))
					pendSpec, pendGen = e, nil
				default:
					pendSpec = e
				}
				continue
			}
			n++
			if e.A != state {
				c.fail("C16.breaker", "disconnected", fmt.Sprintf("breaker %d: transition %d->%d reported while the previous events leave it in state %d", pi, e.A, e.B, state))
			}
			if e.A == e.B {
				c.fail("C16.breaker", "self", fmt.Sprintf("breaker %d: transition %d->%d reported", pi, e.A, e.B))
			}
			state = e.B
			switch {
			case pendSpec != nil && pendSpec.A == e.A && pendSpec.B == e.B:
				pendSpec = nil
			case pendSpec != nil || pendGen != nil:
				c.fail("C16.breaker", "unpaired", fmt.Sprintf("breaker %d: OnStateChanged %d->%d does not match the pending listener call", pi, e.A, e.B))
				pendSpec, pendGen = nil, nil
			case registered(e.B):
				pendGen = e
			}
		}
		if pendSpec != nil {
			c.fail("C16.breaker", "unpaired", fmt.Sprintf("breaker %d: %s was not accompanied by OnStateChanged", pi, listenerNames[pendSpec.L]))
		}
		if pendGen != nil {
			c.fail("C16.breaker", "unpaired", fmt.Sprintf("breaker %d: OnStateChanged %d->%d was not accompanied by its specific listener", pi, pendGen.A, pendGen.B))
		}
		if n > 0 {
			c.cov("c16.breaker_path_checked")
		}
	}
}

// checkPolicyVerdictEvents: policy-level OnSuccess/OnFailure agree with how the
// layer classified each result it handled.
func checkPolicyVerdictEvents(c *checkCtx, v *ExecView, n *Node, fail func(v *ExecView, id, sig, msg string)) {
	if n.Class == nil {
		return
	}
	wantF, wantS := 0, 0
	for _, cl := range n.Class {
		switch cl {
		case Yes:
			wantF++
		case No:
			wantS++
		case Either:
			return
		}
	}
	if !n.Modelled {
		return
	}
	gotF, gotS := len(nodeListeners(v, n, LPolFailure)), len(nodeListeners(v, n, LPolSuccess))
	if gotF != wantF || gotS != wantS {
		fail(v, "policy-verdict", "count", fmt.Sprintf("%s at position %d classified %d handled results as failures and %d as successes, but its OnFailure fired %d and OnSuccess %d times", v.policyAt(c.Res.Sc, n.Pos).Kind, n.Pos, wantF, wantS, gotF, gotS))
	}
	c.cov("c16.policy_verdict_checked")
}

// ---- C17 ----------------------------------------------------------------------

func checkC17(c *checkCtx) {
	if !checkProgress(c, "C17.") {
		return
	}
	sc := c.Res.Sc
	for _, v := range c.Views {
		if v.OpEnd == nil || v.Root == nil {
			continue
		}
		concurrent := false // attempts of this execution may overlap (hedges) or a timer task observes it
		for pos := range v.Stack {
			k := v.policyAt(sc, pos).Kind
			if k == KHedge || k == KTimeout {
				concurrent = true
			}
		}
		slack := 0
		if concurrent {
			// every branch of the execution may be between its two counter updates
			seen := map[int]bool{}
			for _, e := range v.Events {
				seen[e.Task] = true
			}
			slack = len(seen)
		}
		fnDone := 0      // function invocations that have returned
		fnReturning := 0 // returned from the function's point of view but possibly not yet counted
		var start time.Duration = -1
		lastAttemptStart := map[int]time.Duration{}
		scheduledAt := map[[2]int]time.Duration{} // (task, policy) -> instant of the last OnRetryScheduled
		for _, e := range v.Events {
			if e.Kind == EvListener && e.L == LRetryScheduled {
				scheduledAt[[2]int{e.Task, e.Pos}] = e.T
			}
			if e.Kind == EvListener && e.L == LRetry && e.Flags&FHasExec != 0 {
				// the retry being announced is the current attempt: it began after it was scheduled and not in the future
				if t0, ok := scheduledAt[[2]int{e.Task, e.Pos}]; ok {
					c.cov("c17.onretry_attempt_start_checked")
					if e.AttemptStart < t0 || e.AttemptStart > e.T {
						c.fail("C17.time", "onretry-attempt-start", fmt.Sprintf("exec %d: OnRetry (Attempts=%d) reports AttemptStartTime %v, but that retry was scheduled at %v and announced at %v", v.ID, e.Attempts, e.AttemptStart, t0, e.T))
					}
				}
			}
			if e.Flags&FHasExec != 0 {
				c.cov("c17.observations")
				att, exe, ret, hed := e.Attempts, e.Executions, e.Retries, e.Hedges
				if d := att - (1 + ret + hed); d < 0 || d > slack {
					c.fail("C17.identity", "attempts", fmt.Sprintf("exec %d: at event %q Attempts=%d but 1+Retries+Hedges=%d", v.ID, e.String(), att, 1+ret+hed))
				}
				lo, hi := fnDone-fnReturning, fnDone
				if !concurrent {
					lo = fnDone
				}
				if exe < lo || exe > hi {
					c.fail("C17.executions", "count", fmt.Sprintf("exec %d: at event %q Executions=%d but %d function invocations have completed", v.ID, e.String(), exe, fnDone))
				}
				if e.Kind == EvFnStart || e.Kind == EvFnEnd || (e.Kind == EvListener && e.L != LTimeoutExceeded && e.L != LFallbackExecuted && e.L != LCacheHit && e.L < LExecSuccess+0) {
					_ = 0
				}
				if e.Kind != EvListener || (e.L >= LPolSuccess && e.L <= LAbort) || e.L == LFull || e.L == LRateLimitExceeded || e.L == LHedge || e.L == LCacheMiss || e.L == LCached {
					// ExecutionAttempt observers: flags agree with the numbers
					if att >= 1 {
						first, retry := e.Flags&FFirst != 0, e.Flags&FRetry != 0
						if first != (att == 1) || retry != (att > 1) {
							c.fail("C17.flags", "first-retry", fmt.Sprintf("exec %d: at event %q Attempts=%d but IsFirstAttempt=%v IsRetry=%v", v.ID, e.String(), att, first, retry))
						}
					}
				}
				if start < 0 {
					start = e.Start
				} else if e.Start != start {
					c.fail("C17.time", "start", fmt.Sprintf("exec %d: StartTime changed from %v to %v at event %q", v.ID, start, e.Start, e.String()))
				}
				if e.Start > e.T {
					c.fail("C17.time", "future", fmt.Sprintf("exec %d: StartTime %v is later than the observation instant %v", v.ID, e.Start, e.T))
				}
				if e.Flags&FHasElapsed != 0 {
					// elapsed times are the distance from the reported start times to now
					c.cov("c17.elapsed_checked")
					if e.Elapsed != e.T-e.Start || e.ElapsedAttempt != e.T-e.AttemptStart {
						c.fail("C17.time", "elapsed", fmt.Sprintf("exec %d: at %q (t=%v) ElapsedTime=%v ElapsedAttemptTime=%v but StartTime=%v AttemptStartTime=%v", v.ID, e.String(), e.T, e.Elapsed, e.ElapsedAttempt, e.Start, e.AttemptStart))
					}
				}
				if e.Kind == EvFnStart || e.Kind == EvFnEnd {
					if e.AttemptStart < e.Start || e.AttemptStart > e.T {
						c.fail("C17.time", "attempt-start", fmt.Sprintf("exec %d: AttemptStartTime %v outside [StartTime %v, now %v] at %q", v.ID, e.AttemptStart, e.Start, e.T, e.String()))
					}
					if prev, ok := lastAttemptStart[e.Task]; ok && e.AttemptStart < prev {
						c.fail("C17.time", "attempt-start-monotone", fmt.Sprintf("exec %d: AttemptStartTime went back from %v to %v at %q", v.ID, prev, e.AttemptStart, e.String()))
					}
					lastAttemptStart[e.Task] = e.AttemptStart
				}
			}
			if e.Kind == EvFnEnd {
				fnDone++
				fnReturning++
			}
			if e.Kind == EvProbeExit && e.Pos == len(v.Stack) {
				fnReturning-- // back in library code: record() has run
				if fnReturning < 0 {
					fnReturning = 0
				}
			}
		}
		// the OnHedge event describes the hedged attempt that was just started
		for _, e := range v.Listeners {
			if e.L == LHedge && e.Flags&FHasExec != 0 && e.Flags&FHedge == 0 {
				c.fail("C17.flags", "onhedge", fmt.Sprintf("exec %d: the OnHedge event (Attempts=%d Hedges=%d) reports IsHedge=false", v.ID, e.Attempts, e.Hedges))
			}
		}
		// hedge flag and last result at function starts
		hasHedge := false
		for pos := range v.Stack {
			if v.policyAt(sc, pos).Kind == KHedge {
				hasHedge = true
			}
		}
		for _, n := range v.Nodes {
			if n.Pos != len(v.Stack) || n.FnStart == nil || n.FnStart.Flags&FHasExec == 0 {
				continue
			}
			fs := n.FnStart
			wantHedge := false
			for a := n; a.Parent != nil; a = a.Parent {
				if pp := v.policyAt(sc, a.Parent.Pos); pp != nil && pp.Kind == KHedge {
					// the original attempt is the one whose goroutine was started first (task ids follow creation
					// order); the order in which the attempts got to log their entry may differ when they start at once
					orig := a.Task
					for _, ch := range a.Parent.Children {
						if ch.Task < orig {
							orig = ch.Task
						}
					}
					if a.Task != orig {
						wantHedge = true
					}
				}
			}
			if got := fs.Flags&FHedge != 0; got != wantHedge {
				c.fail("C17.flags", "hedge", fmt.Sprintf("exec %d: function invocation %d has IsHedge=%v but it runs %s", v.ID, fs.A, got, map[bool]string{true: "as a hedge attempt", false: "outside any hedge attempt"}[wantHedge]))
			}
			// the execution an invocation holds keeps describing the most recent completed attempt for as long as the
			// invocation runs: without overlapping attempts none completes meanwhile, whatever else happens to the
			// execution (a Timeout firing, a cancellation)
			overlapped := false
			if n.FnEnd != nil {
				for _, o := range v.FnEnds {
					if o != n.FnEnd && o.Seq > fs.Seq && o.Seq < n.FnEnd.Seq {
						overlapped = true // an abandoned invocation outlived by a later attempt
					}
				}
			}
			if fe := n.FnEnd; fe != nil && !hasHedge && !overlapped && fe.Flags&FHasExec != 0 {
				c.cov("c17.last_result_stable_checked")
				if fe.Flags&FIsCanceled != 0 {
					c.cov("c17.last_result_stable_checked_cancelled")
				}
				// LastError() of a cancelled execution that has no error of its own reports the context's error
				// (documented behaviour of the accessor, execution.go): that one change is expected
				ctxErrShown := fe.Flags&FIsCanceled != 0 && fs.LastErr == nil && (fe.LastErr == context.Canceled || fe.LastErr == context.DeadlineExceeded) && sameOutcome(fs.LastVal, nil, fe.LastVal, nil)
				if ctxErrShown {
					c.cov("c17.last_error_shows_context_error")
				}
				if !ctxErrShown && !sameOutcome(fs.LastVal, fs.LastErr, fe.LastVal, fe.LastErr) {
					c.fail("C17.last", "unstable", fmt.Sprintf("exec %d: function invocation %d saw LastResult/LastError (%s, %s) when it started and (%s, %s) when it returned although no attempt completed in between", v.ID, fs.A, fmtVal(fs.LastVal), fmtErr(fs.LastErr), fmtVal(fe.LastVal), fmtErr(fe.LastErr)))
				}
			}
			if hasHedge || concurrent || canceledAt(fs) {
				continue
			}
			// sequential execution: LastResult/LastError are the outcome the nearest enclosing retry handled last
			var wantV any
			var wantE error
			found := false
			for a := n; a.Parent != nil && !found; a = a.Parent {
				par := a.Parent
				if pp := v.policyAt(sc, par.Pos); pp != nil && pp.Kind == KRetry {
					for k, ch := range par.Children {
						if ch == a && k > 0 && par.Children[k-1].Exit != nil {
							wantV, wantE = par.Children[k-1].Exit.Val, par.Children[k-1].Exit.Err
							found = true
						}
					}
				}
			}
			if found {
				c.cov("c17.last_result_checked")
				if !sameOutcome(fs.LastVal, fs.LastErr, wantV, wantE) {
					c.fail("C17.last", "attempt", fmt.Sprintf("exec %d: function invocation %d saw LastResult/LastError (%s, %s) but the previous attempt ended with (%s, %s)", v.ID, fs.A, fmtVal(fs.LastVal), fmtErr(fs.LastErr), fmtVal(wantV), fmtErr(wantE)))
				}
			} else if fs.Attempts == 1 && (fs.LastVal != nil || fs.LastErr != nil) {
				c.fail("C17.last", "first", fmt.Sprintf("exec %d: first attempt saw LastResult/LastError (%s, %s)", v.ID, fmtVal(fs.LastVal), fmtErr(fs.LastErr)))
			}
		}
		// listeners of failure policies see the outcome being handled
		for _, n := range v.Nodes {
			p := v.policyAt(sc, n.Pos)
			if p == nil || n.Exit == nil || instanceRepeated(v, n.Pos) || (p.Kind != KRetry && p.Kind != KBreaker && p.Kind != KFallback) {
				continue
			}
			for _, l := range []int{LPolFailure, LPolSuccess, LRetryScheduled, LRetry, LRetriesExceeded, LAbort} {
				for _, e := range nodeListeners(v, n, l) {
					var prev *Node
					for _, ch := range n.Children {
						if ch.Exit != nil && ch.Exit.Seq < e.Seq {
							prev = ch
						}
					}
					if prev == nil || canceledAt(prev.Exit) || canceledAt(e) {
						continue
					}
					c.cov("c17.listener_last_checked")
					if !sameOutcome(e.LastVal, e.LastErr, prev.Exit.Val, prev.Exit.Err) {
						c.fail("C17.last", "listener", fmt.Sprintf("exec %d: %s at position %d saw LastResult/LastError (%s, %s) but the outcome being handled is %s", v.ID, listenerNames[l], n.Pos, fmtVal(e.LastVal), fmtErr(e.LastErr), outcomeStr(prev.Exit)))
					}
				}
			}
			// so do the delay functions of a retry policy and of a circuit breaker (the breaker consults
			// its function when the outcome it has just recorded opens it)
			if p.Kind == KFallback {
				continue
			}
			for _, e := range v.Events {
				if e.Kind != EvDelayFn || e.Pos != v.Stack[n.Pos] || e.Task != n.Task || e.Seq < n.Enter.Seq || e.Seq > n.Exit.Seq || e.Flags&FHasExec == 0 || inChildCall(n, e.Seq) {
					continue
				}
				var prev *Node
				for _, ch := range n.Children {
					if ch.Exit != nil && ch.Exit.Seq < e.Seq {
						prev = ch
					}
				}
				if prev == nil || canceledAt(prev.Exit) || canceledAt(e) {
					continue
				}
				c.cov("c17.delayfn_last_checked")
				if !sameOutcome(e.LastVal, e.LastErr, prev.Exit.Val, prev.Exit.Err) {
					c.fail("C17.last", "delay-function", fmt.Sprintf("exec %d: the delay function of the %s at position %d saw LastResult/LastError (%s, %s) but the outcome being handled is %s", v.ID, p.Kind, n.Pos, fmtVal(e.LastVal), fmtErr(e.LastErr), outcomeStr(prev.Exit)))
				}
			}
		}
		// final statistics, read after every task has finished
		if d := v.listeners(-1, LExecDone); len(d) == 1 && len(d[0].Aux) == 4 && len(c.Res.Survivors) == 0 {
			att, exe, ret, hed := d[0].Aux[0], d[0].Aux[1], d[0].Aux[2], d[0].Aux[3]
			c.cov("c17.final_statistics_checked")
			if att != 1+ret+hed {
				c.fail("C17.identity", "final", fmt.Sprintf("exec %d: after the execution finished Attempts=%d but 1+Retries+Hedges=%d", v.ID, att, 1+ret+hed))
			}
			if exe != len(v.FnEnds) {
				c.fail("C17.executions", "final", fmt.Sprintf("exec %d: after the execution finished Executions=%d but the function completed %d times", v.ID, exe, len(v.FnEnds)))
			}
			hedgesStarted := 0
			for _, e := range v.Listeners {
				if e.L == LHedge {
					hedgesStarted++
				}
			}
			if hed != hedgesStarted {
				c.fail("C17.hedges", "final", fmt.Sprintf("exec %d: %d hedges were started (OnHedge) but Hedges=%d", v.ID, hedgesStarted, hed))
			}
		}
		if d := v.listeners(-1, LExecDone); len(d) == 1 && d[0].Flags&FHasExec != 0 {
			if d[0].Executions != len(v.FnEnds) && !concurrent {
				c.fail("C17.executions", "done", fmt.Sprintf("exec %d: the done event reports Executions=%d but the function completed %d times", v.ID, d[0].Executions, len(v.FnEnds)))
			}
		}
	}
}
