package harness

func (w *World) standalone(op *Op) {
}
