package harness

import (
	"context"
	"time"

	"github.com/failsafe-go/failsafe-go/circuitbreaker"
)

// Standalone API calls a client can make on shared policy instances.
// Event: Kind EvStandalone, Str = op kind, Pos = policy instance, A = result, B = argument, L = phase (0 invoke, 1 return).

func (w *World) standalone(op *Op) {
	inv := func() {
		w.log.add(Event{Kind: EvStandalone, Str: op.Kind, Pos: op.Pol, B: int64(op.N), L: 0, Exec: -2})
	}
	ret := func(a int64, err error) {
		w.log.add(Event{Kind: EvStandalone, Str: op.Kind, Pos: op.Pol, A: a, B: int64(op.N), Err: err, L: 1, Exec: -2})
	}
	b2i := func(b bool) int64 {
		if b {
			return 1
		}
		return 0
	}
	switch op.Kind {
	// ---- bulkhead
	case "bh.try":
		inv()
		ret(b2i(w.bhs[op.Pol].TryAcquirePermit()), nil)
	case "bh.acquire_wait":
		inv()
		err := w.bhs[op.Pol].AcquirePermitWithMaxWait(nil, op.Dur)
		ret(b2i(err == nil), err)
	case "bh.acquire_ctx":
		ctx, cancel := context.WithTimeout(context.Background(), op.Dur)
		inv()
		err := w.bhs[op.Pol].AcquirePermit(ctx)
		cancel()
		ret(b2i(err == nil), err)
	case "bh.release":
		inv()
		w.bhs[op.Pol].ReleasePermit()
		ret(1, nil)
	// ---- breaker
	case "br.try":
		inv()
		ret(b2i(w.brs[op.Pol].TryAcquirePermit()), nil)
	case "br.success":
		inv()
		w.brs[op.Pol].RecordSuccess()
		ret(0, nil)
	case "br.failure":
		inv()
		w.brs[op.Pol].RecordFailure()
		ret(0, nil)
	case "br.result":
		inv()
		w.brs[op.Pol].RecordResult(op.Arg)
		ret(0, nil)
	case "br.error":
		inv()
		w.brs[op.Pol].RecordError(errTable[op.Arg])
		ret(0, nil)
	case "br.open":
		inv()
		w.brs[op.Pol].Open()
		ret(0, nil)
	case "br.halfopen":
		inv()
		w.brs[op.Pol].HalfOpen()
		ret(0, nil)
	case "br.close":
		inv()
		w.brs[op.Pol].Close()
		ret(0, nil)
	case "br.observe":
		w.observeBreaker(op.Pol)
	// ---- limiter
	// with one permit and Arg == 1 the single-permit form of the call is used
	case "rl.try":
		inv()
		if op.N == 1 && op.Arg == 1 {
			ret(b2i(w.rls[op.Pol].TryAcquirePermit()), nil)
		} else {
			ret(b2i(w.rls[op.Pol].TryAcquirePermits(op.N)), nil)
		}
	case "rl.reserve":
		inv()
		if op.N == 1 && op.Arg == 1 {
			ret(int64(w.rls[op.Pol].ReservePermit()), nil)
		} else {
			ret(int64(w.rls[op.Pol].ReservePermits(op.N)), nil)
		}
	case "rl.tryreserve":
		inv()
		if op.N == 1 && op.Arg == 1 {
			ret(int64(w.rls[op.Pol].TryReservePermit(op.Dur)), nil)
		} else {
			ret(int64(w.rls[op.Pol].TryReservePermits(op.N, op.Dur)), nil)
		}
	case "rl.acquire":
		inv()
		ctx, cancel := acquireCtx(op)
		var err error
		if op.N == 1 && op.Arg == 1 {
			err = w.rls[op.Pol].AcquirePermitWithMaxWait(ctx, op.Dur)
		} else {
			err = w.rls[op.Pol].AcquirePermitsWithMaxWait(ctx, op.N, op.Dur)
		}
		cancel()
		ret(b2i(err == nil), err)
	case "rl.acquire_nomax":
		inv()
		ctx, cancel := acquireCtx(op)
		var err error
		if op.N == 1 && op.Arg == 1 {
			err = w.rls[op.Pol].AcquirePermit(ctx)
		} else {
			err = w.rls[op.Pol].AcquirePermits(ctx, op.N)
		}
		cancel()
		ret(b2i(err == nil), err)
	}
}

// observeBreaker records State, RemainingDelay and Metrics in one scheduler step.
func (w *World) observeBreaker(pol int) {
	br := w.brs[pol]
	var st circuitbreaker.State
	var rem time.Duration
	predMismatch := false
	var m [5]uint
	quiet(func() {
		st = br.State()
		is := [3]bool{br.IsClosed(), br.IsOpen(), br.IsHalfOpen()}
		for k, b := range is {
			if b != (int(st) == k) {
				predMismatch = true
			}
		}
		rem = br.RemainingDelay()
		mm := br.Metrics()
		// every accessor answers for the present instant, whichever is asked first: the order rotates with the clock
		// reading so that each one gets to be the first read after an idle gap
		get := [5]func() uint{mm.Executions, mm.Failures, mm.Successes, mm.FailureRate, mm.SuccessRate}
		first := int(uint64(time.Now().UnixNano()/1000+int64(rem)) % 5)
		for k := 0; k < 5; k++ {
			i := (first + k) % 5
			m[i] = get[i]()
		}
	})
	w.log.add(Event{Kind: EvStandalone, Str: "br.observe", Pos: pol, A: int64(st), B: int64(rem), L: 1, Exec: -2,
		Attempts: int(m[0]), Executions: int(m[1]), Retries: int(m[2]), Hedges: int(m[3]), Aux: []int{int(m[4]), map[bool]int{false: 0, true: 1}[predMismatch]}})
}

// acquireCtx is the context of a blocking standalone acquire: the caller gives up after op.CancelAt when that is set.
func acquireCtx(op *Op) (context.Context, context.CancelFunc) {
	if op.CancelAt > 0 {
		return context.WithTimeout(context.Background(), op.CancelAt)
	}
	return context.Background(), func() {}
}
