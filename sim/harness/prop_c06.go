package harness

import (
	"errors"
	"fmt"
	"time"

	"github.com/failsafe-go/failsafe-go/bulkhead"
)

func init() {
	register(&PropDef{ID: "C06", Stalls: true, Level: "fault_enumeration", Gen: genC06, Check: checkC06, Valid: validC06})
}

func genC06(r *Rnd, t Tier) *Case {
	unit := ms
	sc := &Scenario{Family: "c06"}
	maxC := 3
	if t.Thorough {
		maxC = 4
	}
	bh := PolicySpec{Kind: KBulkhead, MaxConc: uint(r.Range(1, maxC)), MaxWait: pick(r, 0, 0, time.Duration(r.Range(1, 15))*unit, 1000*unit)}
	sc.Policies = []PolicySpec{bh}
	// a few stacks through the same bulkhead
	nst := r.Range(1, 3)
	for s := 0; s < nst; s++ {
		stack := []int{0}
		switch r.Intn(7) {
		case 0:
		case 6:
			// a second, smaller bulkhead in the same stack: the one around it sees ErrFull coming from inside
			// (a result like any other: its own permit goes back), the one inside is refused work the outer admitted
			sc.Policies = append(sc.Policies, PolicySpec{Kind: KBulkhead, MaxConc: 1, MaxWait: pick(r, 0, 0, time.Duration(r.Range(1, 8))*unit)})
			if r.P(0.7) {
				stack = append(stack, len(sc.Policies)-1)
			} else {
				stack = append([]int{len(sc.Policies) - 1}, stack...)
			}
		case 1:
			p := genRetry(r, unit)
			p.MaxRetries = pick(r, 1, 2)
			sc.Policies = append(sc.Policies, p)
			stack = append([]int{len(sc.Policies) - 1}, stack...) // retry outside: each attempt acquires
		case 2:
			sc.Policies = append(sc.Policies, PolicySpec{Kind: KTimeout, Limit: time.Duration(r.Range(2, 25)) * unit})
			if r.Bool() {
				stack = append([]int{len(sc.Policies) - 1}, stack...)
			} else {
				stack = append(stack, len(sc.Policies)-1)
			}
		case 3:
			sc.Policies = append(sc.Policies, genHedge(r, unit))
			if r.Bool() {
				stack = append([]int{len(sc.Policies) - 1}, stack...)
			} else {
				stack = append(stack, len(sc.Policies)-1)
			}
		case 4:
			sc.Policies = append(sc.Policies, genFallback(r, unit))
			stack = append([]int{len(sc.Policies) - 1}, stack...)
		case 5:
			p := genRetry(r, unit)
			p.MaxRetries = 1
			sc.Policies = append(sc.Policies, p)
			stack = append(stack, len(sc.Policies)-1) // retry inside the bulkhead
		}
		sc.Stacks = append(sc.Stacks, stack)
	}
	nex := r.Range(2, 5)
	if t.Thorough {
		nex = r.Range(2, 8)
	}
	nclients := r.Range(2, 4)
	cl := make([]Client, nclients)
	for i := 0; i < nex; i++ {
		s := genScript(r, unit, r.Range(1, 3), pick(r, 0.0, 0.4, 0.8))
		for j := range s.Outcomes {
			s.Outcomes[j].Dur = time.Duration(r.Range(1, 20)) * unit
			s.Outcomes[j].Coop = pick(r, CoopReturn, CoopResult, CoopIgnore)
		}
		sc.Scripts = append(sc.Scripts, s)
		op := Op{Kind: "exec", Stack: r.Intn(nst), Script: len(sc.Scripts) - 1, Entry: pick(r, EnGetExec, EnRunExec, EnGetExecAsync, EnGet, EnGetAsync), Ctx: pick(r, CtxNone, CtxBackground)}
		ci := r.Intn(nclients)
		if r.P(0.3) {
			cl[ci].Ops = append(cl[ci].Ops, Op{Kind: "sleep", Dur: time.Duration(r.Range(0, 10)) * unit})
		}
		cl[ci].Ops = append(cl[ci].Ops, op)
	}
	// standalone permit users
	if r.P(0.5) {
		var ops []Op
		held := 0
		for i, n := 0, r.Range(1, 4); i < n; i++ {
			switch {
			case held > 0 && r.P(0.5):
				ops = append(ops, Op{Kind: "bh.release", Pol: 0})
				held--
			default:
				// acquisition may fail: the release is conditional at run time (see runStandaloneClient)
				ops = append(ops, Op{Kind: pick(r, "bh.try", "bh.acquire_wait", "bh.acquire_ctx"), Pol: 0, Dur: time.Duration(r.Range(0, 12)) * unit})
				held++
			}
			if r.P(0.5) {
				ops = append(ops, Op{Kind: "sleep", Dur: time.Duration(r.Range(1, 15)) * unit})
			}
		}
		cl = append(cl, Client{Ops: ops})
	}
	// one execution receives a context cancellation, swept over every scheduler step
	sweep := false
	var cands [][2]int
	for ci := range cl {
		for oi := range cl[ci].Ops {
			if cl[ci].Ops[oi].Kind == "exec" {
				cands = append(cands, [2]int{ci, oi})
			}
		}
	}
	if len(cands) > 0 && r.P(0.7) {
		k := cands[r.Intn(len(cands))]
		op := &cl[k[0]].Ops[k[1]]
		op.Ctx = CtxCancel
		op.CancelSrc = SrcCtxCancel
		if r.P(0.8) {
			op.CancelStep = never
			sweep = true
		} else {
			op.CancelAt = time.Duration(r.Range(0, 30)) * unit
		}
	}
	var out []Client
	for _, c := range cl {
		if len(c.Ops) > 0 {
			out = append(out, c)
		}
	}
	sc.Clients = out
	terminating(sc)
	return &Case{Sc: sc, Sweep: sweep}
}

func validC06(sc *Scenario) bool {
	// standalone release ops must be preceded by an acquisition in the same client
	for _, c := range sc.Clients {
		held := 0
		for _, op := range c.Ops {
			switch op.Kind {
			case "bh.try", "bh.acquire_wait", "bh.acquire_ctx":
				held++
			case "bh.release":
				if held == 0 {
					return false
				}
				held--
			}
		}
	}
	for _, p := range sc.Policies {
		if p.Kind == KBulkhead {
			return true
		}
	}
	return false
}

func checkC06(c *checkCtx) {
	sc := c.Res.Sc
	if c.Res.Out.TaskOverflow {
		return
	}
	if c.Res.Out.Stalled || c.Res.Out.Deadlock || c.Res.Out.Livelock {
		c.fail("C06.progress", "stall", fmt.Sprintf("the run did not finish (a task is stuck; a permit that is released twice or never granted blocks on the semaphore): stalled=%v deadlock=%v livelock=%v; blocked: %s", c.Res.Out.Stalled, c.Res.Out.Deadlock, c.Res.Out.Livelock, survivorText(c.Res)))
		return
	}
	for _, p := range c.Res.Panics {
		c.fail("C06.panic", "panic", "a task panicked: "+p)
		return
	}
	for pi, p := range sc.Policies {
		if p.Kind != KBulkhead {
			continue
		}
		max := int(p.MaxConc)
		// interval bookkeeping over the whole log
		type span struct{ from, to int } // event sequence numbers
		var sure []span                  // inner call in progress: the permit is certainly held
		var maybe []span                 // from entering the bulkhead to leaving it (admitted calls only)
		for _, v := range c.Views {
			for _, n := range v.Nodes {
				if n.Pos >= len(v.Stack) || v.Stack[n.Pos] != pi {
					continue
				}
				end := 1 << 30
				if n.Exit != nil {
					end = n.Exit.Seq
				}
				if len(n.Children) > 0 {
					ch := n.Children[0]
					ce := 1 << 30
					if ch.Exit != nil {
						ce = ch.Exit.Seq
					}
					sure = append(sure, span{ch.Enter.Seq, ce})
					maybe = append(maybe, span{n.Enter.Seq, end})
					if len(n.Children) > 1 {
						c.fail("C06.calls", "count", fmt.Sprintf("exec %d: bulkhead invoked the layer inside it %d times for one admission", v.ID, len(n.Children)))
					}
				} else if n.Exit != nil {
					// refused or cancelled while waiting: never ran the function (no inner call by construction)
					isFull := errors.Is(n.Exit.Err, bulkhead.ErrFull)
					if isFull {
						c.cov("c06.refused")
						waited := n.Exit.T - n.Enter.T
						if waited < p.MaxWait {
							c.fail("C06.refusal", "early", fmt.Sprintf("exec %d: refused with ErrFull after waiting %v although the max wait time is %v", v.ID, waited, p.MaxWait))
						}
					} else if canceledAt(n.Exit) || n.Exit.Err != nil {
						c.cov("c06.cancelled_while_waiting")
					}
				}
			}
		}
		// standalone permits: held from a successful acquisition's return to the release's invocation
		type held struct{ from, to int }
		var st []held
		open := map[int][]int{} // task -> stack of acquisition return seqs
		acquired, released := 0, 0
		for i := range c.Res.Log.Ev {
			e := &c.Res.Log.Ev[i]
			if e.Kind != EvStandalone || e.Pos != pi {
				continue
			}
			switch e.Str {
			case "bh.try", "bh.acquire_wait", "bh.acquire_ctx":
				if e.L == 1 && e.A == 1 {
					open[e.Task] = append(open[e.Task], e.Seq)
					acquired++
				}
			case "bh.release":
				if e.L == 0 {
					if s := open[e.Task]; len(s) > 0 {
						st = append(st, held{s[len(s)-1], e.Seq})
						open[e.Task] = s[:len(s)-1]
						released++
					}
				}
			}
		}
		for _, s := range open {
			for _, from := range s {
				st = append(st, held{from, 1 << 30})
			}
		}
		// (i) never more than max permits certainly held
		nEv := len(c.Res.Log.Ev)
		worst, worstAt := 0, -1
		for q := 0; q < nEv; q++ {
			cnt := 0
			for _, s := range sure {
				if s.from <= q && q < s.to {
					cnt++
				}
			}
			for _, s := range st {
				if s.from <= q && q < s.to {
					cnt++
				}
			}
			if cnt > worst {
				worst, worstAt = cnt, q
			}
		}
		if worst > max {
			c.fail("C06.limit", "exceeded", fmt.Sprintf("bulkhead %d with maxConcurrency=%d had %d permits in use at once (at event %s)", pi, max, worst, c.Res.Log.Ev[worstAt].String()))
		}
		if worst == max {
			c.cov("c06.limit_reached")
		}
		// (ii) conservation after quiescence
		if free, ok := c.Res.FreeBulkhead[pi]; ok {
			stillHeld := acquired - released
			c.cov("c06.conservation_checked")
			if free != max-stillHeld {
				c.fail("C06.conservation", fmt.Sprintf("free=%d", free-(max-stillHeld)), fmt.Sprintf("after every execution finished, %d permits of bulkhead %d are available; expected maxConcurrency %d minus %d still held through the standalone API", free, pi, max, stillHeld))
			}
		}
	}
	for _, v := range c.Views {
		if v.Cancel0 != nil {
			c.cov("c06.cancellation_fired")
		}
	}
}

func survivorText(res *RunResult) string {
	s := ""
	for _, t := range res.Survivors {
		s += fmt.Sprintf("[task %d created at %s, last at %s] ", t.ID, t.CreateSite, t.Site)
	}
	return s
}
