package harness

import (
	"context"
	"errors"
	"fmt"
	"time"

	"github.com/failsafe-go/failsafe-go/bulkhead"
	"github.com/failsafe-go/failsafe-go/circuitbreaker"
	"github.com/failsafe-go/failsafe-go/ratelimiter"

	"github.com/failsafe-go/failsafe-go"
	"github.com/failsafe-go/failsafe-go/timeout"
)

func init() {
	register(&PropDef{
		ID: "C08", Level: "fault_enumeration", QuickCases: 900, ThoroughCases: 40000,
		Gen: genC08, Check: checkC08, Valid: validC08,
		Rule: "one execution through a random stack containing a retry or hedge policy with exactly one cancellation source; context/result cancellation is fired at every scheduler step of the base schedule (sweep), deadlines and timeouts at generated instants; a run is non-trivial if it had a scheduling choice or a fired fault; distinct = distinct (scenario, interleaving hash)",
	})
}

// genC08SlowLosers: a hedge below a retry policy whose losing attempts notice their cancellation
// late (after the outer retry policy has moved on to its delay), and a caller whose context ends
// during that delay. What the caller must see is the cause of *its* cancellation.
func genC08SlowLosers(r *Rnd, t Tier) *Case {
	unit := ms
	sc := &Scenario{Family: "c08"}
	outer := PolicySpec{Kind: KRetry, MaxRetries: r.Range(1, 3), DelayKind: DelayFixed, Delay: time.Duration(r.Range(10, 25)) * unit, Handle: Cond{Results: []int{1}}}
	h := PolicySpec{Kind: KHedge, MaxHedges: 1, Delay: time.Duration(r.Range(1, 4)) * unit, Cancel: Cond{Results: []int{1}}}
	var inner PolicySpec
	if r.Bool() {
		inner = PolicySpec{Kind: KRetry, MaxRetries: 1, Handle: Cond{Errors: []int{EA}}}
	} else {
		inner = genFallback(r, unit)
		inner.Handle = Cond{Errors: []int{EA}}
	}
	sc.Policies = []PolicySpec{outer, h, inner}
	sc.Stacks = [][]int{{0, 1, 2}}
	// first attempt: slow, and slow to react to its cancellation; the hedge: quick, with the result both the
	// hedge (accept) and the outer retry (failure) look for
	slow := Outcome{Dur: time.Duration(r.Range(20, 40)) * unit, Result: 2, Coop: CoopLate, IgnoreFor: time.Duration(r.Range(3, 9)) * unit}
	quick := Outcome{Dur: time.Duration(r.Range(0, 2)) * unit, Result: 1}
	sc.Scripts = []Script{{Outcomes: []Outcome{slow, quick, slow, quick, slow, quick, {Result: 3}}}}
	src := pick(r, SrcCtxDeadline, SrcCtxDeadline, SrcCtxCancel)
	op := Op{Kind: "exec", CancelSrc: src, Entry: pick(r, EnGetExec, EnGetExecAsync, EnRunExec)}
	at := h.Delay + quick.Dur + time.Duration(r.Range(2, int(outer.Delay/unit)-1))*unit // inside the outer delay
	if src == SrcCtxDeadline {
		op.Ctx, op.CtxD = CtxDeadline, at
	} else {
		op.Ctx, op.CancelAt = CtxCancel, at
	}
	sc.Clients = []Client{{Ops: []Op{{Kind: "sleep", Dur: unit / 2}, op}}}
	terminating(sc)
	return &Case{Sc: sc}
}

// genC08TimeoutTie: a function that returns at the very instant its per-attempt Timeout fires, under a
// retry policy, and a caller that cancels while the retry policy waits to retry. Whichever of the two
// wins the tie, the Timeout's verdict belongs to that attempt only.
func genC08TimeoutTie(r *Rnd, t Tier) *Case {
	unit := ms
	sc := &Scenario{Family: "c08"}
	L := time.Duration(r.Range(3, 12)) * unit
	rp := PolicySpec{Kind: KRetry, MaxRetries: r.Range(1, 3), DelayKind: DelayFixed, Delay: time.Duration(r.Range(4, 12)) * unit}
	sc.Policies = []PolicySpec{rp, {Kind: KTimeout, Limit: L}}
	sc.Stacks = [][]int{{0, 1}}
	var s Script
	for i := 0; i < 4; i++ {
		s.Outcomes = append(s.Outcomes, Outcome{Dur: pick(r, L, L, L, L-1, L+1), Err: pick(r, EA, EB, ENil), Result: pick(r, 0, 1), Coop: pick(r, CoopReturn, CoopResult, CoopIgnore)})
	}
	sc.Scripts = []Script{s}
	src := pick(r, SrcCtxCancel, SrcCtxCancel, SrcResultCancel)
	op := Op{Kind: "exec", CancelSrc: src, Entry: pick(r, EnGetExec, EnRunExec, EnGet)}
	if src == SrcResultCancel {
		op.Entry = pick(r, EnGetExecAsync, EnRunExecAsync)
	} else {
		op.Ctx = CtxCancel
	}
	k := r.Range(1, 2) // during the delay after attempt k
	op.CancelAt = time.Duration(k)*L + time.Duration(k-1)*rp.Delay + time.Duration(r.Range(1, int(rp.Delay/unit)-1))*unit
	sc.Clients = []Client{{Ops: []Op{{Kind: "sleep", Dur: unit / 2}, op}}}
	terminating(sc)
	return &Case{Sc: sc}
}

// genC08GateWait: the cancellation (every source that needs no Timeout) arrives while the execution waits for
// a bulkhead permit or a rate limiter grant that it would have got - the holder releases before the max wait
// time is over - with the gate outside the retry/hedge policy, so nothing re-examines the cancellation after
// the gate's own answer.
func genC08GateWait(r *Rnd, t Tier) *Case {
	unit := ms
	sc := &Scenario{Family: "c08"}
	hold := time.Duration(r.Range(10, 30)) * unit
	var gate PolicySpec
	if r.P(0.7) {
		gate = PolicySpec{Kind: KBulkhead, MaxConc: 1, MaxWait: hold + time.Duration(r.Range(1, 30))*unit}
	} else {
		gate = PolicySpec{Kind: KLimiter, Smooth: true, Interval: hold, MaxWait: hold + time.Duration(r.Range(1, 30))*unit}
	}
	core := genRetry(r, unit)
	core.MaxRetries = pick(r, 1, 2)
	sc.Policies = []PolicySpec{gate, core}
	stack := []int{0, 1}
	if r.P(0.3) {
		b := genBreaker(r, unit)
		b.FailThr += 3
		sc.Policies = append(sc.Policies, b)
		stack = []int{2, 0, 1}
	}
	sc.Stacks = [][]int{stack, {0}}
	sc.Scripts = []Script{genScript(r, unit, r.Range(1, 3), pick(r, 0.3, 0.7)), {Outcomes: []Outcome{{Dur: hold, Coop: CoopIgnore}}}}
	src := pick(r, SrcCtxDeadline, SrcCtxDeadline, SrcCtxCancel, SrcResultCancel)
	op := Op{Kind: "exec", CancelSrc: src, Entry: pick(r, EnGetExec, EnRunExec, EnGet)}
	at := time.Duration(r.Range(1, int(hold/unit)-1)) * unit // while waiting at the gate
	switch src {
	case SrcCtxDeadline:
		op.Ctx, op.CtxD, op.CtxCause = CtxDeadline, at, r.P(0.3)
	case SrcCtxCancel:
		op.Ctx, op.CancelAt = CtxCancel, at
	default:
		op.Entry = pick(r, EnGetExecAsync, EnRunExecAsync)
		op.CancelAt = at
	}
	sc.Clients = []Client{{Ops: []Op{{Kind: "exec", Stack: 1, Script: 1, Entry: EnGet}}}, {Ops: []Op{{Kind: "sleep", Dur: unit / 2}, op}}}
	terminating(sc)
	return &Case{Sc: sc}
}

func genC08(r *Rnd, t Tier) *Case {
	if r.P(0.04) {
		return genC08SlowLosers(r, t)
	}
	if r.P(0.04) {
		return genC08GateWait(r, t)
	}
	if r.P(0.04) {
		return genC08TimeoutTie(r, t)
	}
	unit := ms
	sc := &Scenario{Family: "c08"}
	src := pick(r, SrcCtxCancel, SrcCtxCancel, SrcCtxDeadline, SrcTimeout, SrcResultCancel, SrcResultCancel)
	// core
	var kinds []string
	switch r.Intn(4) {
	case 0, 1:
		kinds = append(kinds, KRetry)
	case 2:
		kinds = append(kinds, KHedge)
	default:
		kinds = append(kinds, KRetry, KHedge)
	}
	max := 3
	if t.Thorough {
		max = 5
	}
	for len(kinds) < max && r.P(0.55) {
		kinds = append(kinds, pick(r, KFallback, KBreaker, KBulkhead, KLimiter, KFallback, KRetry))
	}
	shuffle(r, kinds)
	bystander := src != SrcTimeout && r.P(0.25)
	if bystander {
		// a Timeout that never fires: it only adds its cancellable execution copy at some depth
		at := r.Intn(len(kinds) + 1)
		kinds = append(kinds[:at:at], append([]string{KTimeout}, kinds[at:]...)...)
	}
	perAttempt := src != SrcTimeout && !bystander && r.P(0.2)
	if perAttempt {
		// a Timeout innermost, below the retry/hedge, short enough to fire on slow attempts: its
		// ErrExceeded belongs to one attempt and must not be what a later cancellation reports
		kinds = append(kinds, KTimeout)
	}
	if src == SrcTimeout {
		// the Timeout encloses the retry/hedge: put it outermost, or just inside a fallback
		kinds = append([]string{KTimeout}, kinds...)
		if r.P(0.4) {
			kinds = append([]string{KFallback}, kinds...)
		}
	}
	var stack []int
	for _, k := range kinds {
		var p PolicySpec
		switch k {
		case KRetry:
			p = genRetry(r, unit)
			if p.MaxRetries == 0 {
				p.MaxRetries = 2
			}
		case KHedge:
			p = genHedge(r, unit)
		case KFallback:
			p = genFallback(r, unit)
		case KBreaker:
			p = genBreaker(r, unit)
			p.FailThr += 3 // mostly stays closed
		case KBulkhead:
			p = genBulkhead(r, unit)
		case KLimiter:
			p = genLimiter(r, unit)
		case KTimeout:
			p = genTimeout(r, unit)
			if bystander {
				p.Limit = time.Duration(r.Range(20, 60)) * 1000 * unit
			}
			if perAttempt {
				p.Limit = time.Duration(r.Range(2, 12)) * unit
			}
		}
		sc.Policies = append(sc.Policies, p)
		stack = append(stack, len(sc.Policies)-1)
	}
	sc.Stacks = [][]int{stack}
	// script: mostly failing so that retries/hedges happen
	s := genScript(r, unit, r.Range(1, 5), 0.8)
	for i := range s.Outcomes {
		s.Outcomes[i].Coop = pick(r, CoopReturn, CoopReturn, CoopResult)
	}
	sc.Scripts = []Script{s}
	terminating(sc)
	op := Op{Kind: "exec", CancelSrc: src}
	async := r.P(0.4) || src == SrcResultCancel
	withExec := r.P(0.85)
	op.Entry = pick(r, EnRun, EnGet)
	if withExec {
		op.Entry++
	}
	if async {
		op.Entry += 4
	}
	switch src {
	case SrcCtxCancel:
		op.Ctx = pick(r, CtxCancel, CtxCancelValue)
		op.CtxCause = r.P(0.3)
	case SrcCtxDeadline:
		op.Ctx = CtxDeadline
		op.CtxCause = r.P(0.3)
		op.CtxD = time.Duration(r.Range(0, 60))*unit + time.Duration(r.Range(-1, 1))
		if op.CtxD < 0 {
			op.CtxD = 0
		}
	case SrcTimeout, SrcResultCancel:
		op.Ctx = pick(r, CtxNone, CtxBackground, CtxValue)
	}
	sweep := src == SrcCtxCancel || src == SrcResultCancel
	if sweep && r.P(0.15) {
		// time-based instead of step-based
		sweep = false
		op.CancelAt = time.Duration(r.Range(0, 60)) * unit
	}
	if sweep {
		op.CancelStep = never
	}
	// the cancelled execution starts a little after the other clients so that contention for
	// permits is the same in the base run and in every swept run
	cl := []Client{{Ops: []Op{{Kind: "sleep", Dur: unit / 2}, op}}}
	// optional blocker holding bulkhead permits / limiter capacity
	for _, pi := range stack {
		p := sc.Policies[pi]
		if (p.Kind == KBulkhead || p.Kind == KLimiter) && r.P(0.6) {
			sc.Stacks = append(sc.Stacks, []int{pi})
			sc.Scripts = append(sc.Scripts, Script{Outcomes: []Outcome{{Dur: time.Duration(r.Range(5, 40)) * unit, Coop: CoopIgnore}}})
			var ops []Op
			for i, n := 0, r.Range(1, 3); i < n; i++ {
				ops = append(ops, Op{Kind: "exec", Stack: len(sc.Stacks) - 1, Script: len(sc.Scripts) - 1, Entry: EnGet})
			}
			cl = append([]Client{{Ops: ops}}, cl...)
			break
		}
	}
	sc.Clients = cl
	return &Case{Sc: sc, Sweep: sweep}
}

func causeOf(src int) error {
	switch src {
	case SrcCtxCancel:
		return context.Canceled
	case SrcCtxDeadline:
		return context.DeadlineExceeded
	case SrcTimeout:
		return timeout.ErrExceeded
	case SrcResultCancel:
		return failsafe.ErrExecutionCanceled
	}
	return nil
}

var srcNames = []string{"none", "ctx.cancel", "ctx.deadline", "timeout", "ExecutionResult.Cancel"}

func checkC08(c *checkCtx) {
	sc := c.Res.Sc
	if c.Res.Out.Stalled || c.Res.Out.Deadlock || c.Res.Out.Livelock {
		c.fail("C08.progress", "stall", fmt.Sprintf("execution did not complete: stalled=%v deadlock=%v livelock=%v", c.Res.Out.Stalled, c.Res.Out.Deadlock, c.Res.Out.Livelock))
		return
	}
	for _, v := range c.Views {
		src := v.Op.CancelSrc
		if src == SrcNone {
			continue
		}
		if v.OpEnd == nil {
			c.fail("C08.progress", "noend", "execution with a cancellation source never returned")
			continue
		}
		// when did the cancellation take effect?
		var c0seq, c1seq int = -1, -1
		var tc time.Duration
		ambiguousT := time.Duration(-1)
		switch src {
		case SrcCtxCancel, SrcResultCancel:
			if v.Cancel0 == nil || v.Cancel1 == nil {
				continue
			}
			c0seq, c1seq, tc = v.Cancel0.Seq, v.Cancel1.Seq, v.Cancel0.T
		case SrcCtxDeadline:
			tc = v.OpStart.T + v.Op.CtxD
			ambiguousT = tc
			// first event strictly after the deadline instant
			for _, e := range v.Events {
				if e.T >= tc && c0seq < 0 {
					c0seq = e.Seq
				}
				if e.T > tc {
					c1seq = e.Seq - 1
					break
				}
			}
			if c0seq < 0 {
				continue // completed before the deadline
			}
			if c1seq < 0 {
				c1seq = 1 << 30
			}
		case SrcTimeout:
			ls := v.listeners(-2, LTimeoutExceeded)
			if len(ls) == 0 {
				continue
			}
			c0seq, tc = ls[0].Seq, ls[0].T
			// the Cancel call follows the listener; it has completed once any later event shows the execution cancelled
			c1seq = 1 << 30
			for _, e := range v.Events {
				if e.Seq > c0seq && e.Flags&FIsCanceled != 0 {
					c1seq = e.Seq - 1
					break
				}
			}
		}
		_ = ambiguousT
		if c0seq > v.OpEnd.Seq {
			c.cov("c08.cancel_after_completion")
			continue
		}
		if v.Root != nil && v.Root.Exit != nil && v.Root.Exit.Seq < c1seq && (src == SrcCtxCancel || src == SrcResultCancel) {
			// the policies had all returned while the cancelling call was still in progress
			c.cov("c08.completed_during_cancel_call")
			continue
		}
		c.cov("c08.cancel_during_execution." + srcNames[src])
		cause := causeOf(src)
		// (a) every function start after the cancellation took effect observes it
		startsAfter := map[int]int{}
		total := 0
		for _, e := range v.FnStarts {
			if e.Seq > c1seq {
				startsAfter[e.Task]++
				total++
				if e.Flags&FHasExec != 0 && e.Flags&FIsCanceled == 0 && src != SrcTimeout {
					c.fail("C08.observe", "fn-not-canceled", fmt.Sprintf("exec %d: function invocation %d started after %s took effect but IsCanceled() was false", v.ID, e.A, srcNames[src]))
				}
			}
		}
		// (b) at most one further attempt per branch
		for task, n := range startsAfter {
			if n > 1 {
				c.fail("C08.further-attempts", "per-task", fmt.Sprintf("exec %d: %d function invocations started in task %d after %s took effect", v.ID, n, task, srcNames[src]))
			}
		}
		if total > 0 {
			c.cov("c08.one_further_attempt")
		}
		// a hedge policy that was running when the cancellation took effect starts at most one more attempt
		for _, n := range v.Nodes {
			if p := v.policyAt(sc, n.Pos); p == nil || p.Kind != KHedge || n.Enter.Seq > c0seq {
				continue
			}
			late := 0
			for _, ch := range n.Children {
				if ch.Enter.Seq > c1seq && ch.Enter.T > tc {
					late++
				}
			}
			if late > 1 {
				c.fail("C08.further-attempts", "hedges-after-cancel", fmt.Sprintf("exec %d: the hedge policy at position %d started %d more attempts after %s had taken effect", v.ID, n.Pos, late, srcNames[src]))
			}
		}
		// (c) promptness: after the cancellation instant, time passes only inside user functions
		var inFn time.Duration
		for i, s := range v.FnStarts {
			var end *Event
			for _, e := range v.FnEnds {
				if e.A == s.A && e.Task == s.Task {
					end = e
				}
			}
			_ = i
			if end == nil {
				continue
			}
			a := s.T
			if a < tc {
				a = tc
			}
			if end.T > a {
				inFn += end.T - a
			}
		}
		// fallback functions are user code too
		fbStart := map[int]time.Duration{} // per task: fallback functions of concurrent hedge attempts overlap
		for _, e := range v.Events {
			if e.Kind == EvFallbackFn {
				fbStart[e.Task] = e.T
			}
			if st, ok := fbStart[e.Task]; ok && e.Kind == EvFallbackFnEnd {
				a := st
				if a < tc {
					a = tc
				}
				if e.T > a {
					inFn += e.T - a
				}
				delete(fbStart, e.Task)
			}
		}
		if late := v.OpEnd.T - tc; late > inFn {
			c.fail("C08.prompt", "late:"+lateSite(c, v, tc), fmt.Sprintf("exec %d: completed %v after %s fired at t=%v although user code ran for only %v after that instant (a policy waited out a delay)", v.ID, late, srcNames[src], tc, inFn))
		}
		// (d) returned error identifies the cause, or is what the execution completes with when never cancelled
		got := v.OpEnd
		scopePos := -1
		if src == SrcTimeout {
			// the scope of a Timeout is what it encloses: judge the Timeout layer's own result
			for pos := range v.Stack {
				if q := v.policyAt(sc, pos); q.Kind == KTimeout {
					scopePos = pos
					break
				}
			}
			got = nil
			for _, n := range v.Nodes {
				if n.Pos == scopePos && n.Exit != nil {
					got = n.Exit
					break
				}
			}
			if got == nil {
				continue
			}
		}
		if isErr(got.Err, cause) {
			c.cov("c08.result_is_cause")
		} else {
			b := c.base()
			var bEnd *Event
			if b != nil && b.Log != nil {
				for i := range b.Log.Ev {
					e := &b.Log.Ev[i]
					if scopePos < 0 && e.Kind == EvOpEnd && e.Exec == v.ID {
						bEnd = e
					}
					if scopePos >= 0 && e.Kind == EvProbeExit && e.Exec == v.ID && e.Pos == scopePos && bEnd == nil {
						bEnd = e
					}
				}
			}
			if bEnd != nil && sameOutcome(got.Val, got.Err, bEnd.Val, bEnd.Err) {
				c.cov("c08.result_is_completed_result")
			} else if hedgeProducedBefore(sc, v, got, c1seq) {
				// with simultaneous attempt results the hedge may accept another one than in the base schedule:
				// a result an attempt had produced before the cancellation took effect is a completed result
				c.cov("c08.result_is_earlier_hedge_attempt_result")
			} else if scopePos < 0 && (decidedBeforeCancel(v, c1seq) || quiescentAtCancel(sc, v, c1seq, tc)) {
				// every inner result the outermost policy used existed before the cancellation took effect
				// and it scheduled nothing afterwards: the execution had completed, only the return was
				// pending. (The uncancelled base run may differ when a result and a per-attempt timeout
				// tie at one instant and the schedule resolves the tie the other way.)
				c.cov("c08.result_is_completed_result_by_history")
			} else if src != SrcTimeout && got.Val == nil && got.Err == timeout.ErrExceeded && timeoutFiredInCurrentAttempt(c.Res, v) {
				// a per-attempt Timeout had fired and its attempt was still unwinding when the cancellation
				// arrived: two causes overlap and either may be named. Once the enclosing retry policy has
				// moved on (scheduled the retry), that Timeout's verdict belongs to a finished attempt.
				c.cov("c08.result_is_coinciding_attempt_timeout")
			} else if n := earlyFull(sc, v); gateRejection(got.Err) && n != nil && errors.Is(got.Err, bulkhead.ErrFull) {
				// "full" before the max wait time was over is not a rejection: the wait was ended by the cancellation
				c.fail("C08.cause", fmt.Sprintf("src=%s got=ErrFull-before-max-wait", srcNames[src]),
					fmt.Sprintf("exec %d: %s fired while the execution waited for a bulkhead permit; the bulkhead at position %d answered ErrFull after %v of its %v max wait time and the caller received (%s, %s), which does not identify the cause (%v)", v.ID, srcNames[src], n.Pos, n.Exit.T-n.Enter.T, v.policyAt(sc, n.Pos).MaxWait, fmtVal(got.Val), fmtErr(got.Err), cause))
			} else if gateRejection(got.Err) {
				// refused by a bulkhead, rate limiter or breaker: that is how this execution completed, whatever the
				// cancellation did (contention with the other clients differs from the base schedule)
				c.cov("c08.result_is_rejection")
			} else {
				exp := "<base run did not complete>"
				if bEnd != nil {
					exp = fmt.Sprintf("(%s, %s)", fmtVal(bEnd.Val), fmtErr(bEnd.Err))
				}
				c.fail("C08.cause", fmt.Sprintf("src=%s got=%s", srcNames[src], errClass(got.Err)),
					fmt.Sprintf("exec %d: %s fired during the execution; caller received (%s, %s), which neither identifies the cause (%v) nor is the result of the uncancelled execution %s", v.ID, srcNames[src], fmtVal(got.Val), fmtErr(got.Err), cause, exp))
			}
		}
		// (e) never the output of a fallback applied after the cancellation took effect
		for _, n := range v.Nodes {
			p := v.policyAt(sc, n.Pos)
			if p == nil || p.Kind != KFallback || n.Exit == nil || len(n.Children) == 0 {
				continue
			}
			ch := n.Children[len(n.Children)-1]
			if ch.Exit == nil || ch.Exit.Seq <= c1seq {
				continue
			}
			if src == SrcTimeout {
				// only fallbacks inside the timeout are enclosed by it
				inside := false
				for pos := 0; pos < n.Pos; pos++ {
					if q := v.policyAt(sc, pos); q != nil && q.Kind == KTimeout {
						inside = true
					}
				}
				if !inside {
					continue
				}
			}
			fbOut := sameOutcome(n.Exit.Val, n.Exit.Err, fbValue(p), errTable[p.FbErr])
			changed := !sameOutcome(n.Exit.Val, n.Exit.Err, ch.Exit.Val, ch.Exit.Err)
			if fbOut && changed && sameOutcome(v.OpEnd.Val, v.OpEnd.Err, n.Exit.Val, n.Exit.Err) {
				c.fail("C08.fallback", "fallback-after-cancel", fmt.Sprintf("exec %d: fallback at position %d was applied after %s took effect and its output (%s, %s) reached the caller", v.ID, n.Pos, srcNames[src], fmtVal(n.Exit.Val), fmtErr(n.Exit.Err)))
			}
		}
	}
}

func fbValue(p *PolicySpec) any {
	if p.FbKind == 1 {
		return nil
	}
	return p.FbResult
}

// errClass names an error coarsely for finding signatures.
func errClass(err error) string {
	switch {
	case err == nil:
		return "nil"
	case isErr(err, failsafe.ErrExecutionCanceled):
		return "ErrExecutionCanceled"
	case isErr(err, context.Canceled):
		return "context.Canceled"
	case isErr(err, context.DeadlineExceeded):
		return "context.DeadlineExceeded"
	case isErr(err, timeout.ErrExceeded):
		return "timeout.ErrExceeded"
	case isErr(err, errSawCancel):
		return "fn-error"
	}
	return "other"
}

// lateSite names the policy kind that was still waiting after the last user
// code that ran past the cancellation instant had finished.
func lateSite(c *checkCtx, v *ExecView, tc time.Duration) string {
	tq := tc
	// functions in flight at the cancellation instant may legitimately run on for a while
	for i, s := range v.FnStarts {
		if i < len(v.FnEnds) && s.T <= tc && v.FnEnds[i].T > tq {
			tq = v.FnEnds[i].T
		}
	}
	var deepest *Node
	for _, n := range v.Nodes {
		if n.Enter.T <= tq && (n.Exit == nil || n.Exit.T > tq) {
			if deepest == nil || n.Pos > deepest.Pos {
				deepest = n
			}
		}
	}
	if deepest == nil {
		return "?"
	}
	if p := v.policyAt(c.Res.Sc, deepest.Pos); p != nil {
		return p.Kind
	}
	return "fn"
}

// validC08 is the property's premise: the cancelled execution runs through a
// retry or hedge policy, and a Timeout appears only as the cancellation source,
// enclosing them.
func validC08(sc *Scenario) bool {
	n := 0
	for _, c := range sc.Clients {
		for _, op := range c.Ops {
			if op.Kind != "exec" || op.CancelSrc == SrcNone {
				continue
			}
			n++
			core, tmo := -1, -1
			for pos, pi := range sc.Stacks[op.Stack] {
				k := sc.Policies[pi].Kind
				if (k == KRetry || k == KHedge) && core < 0 {
					core = pos
				}
				if k == KTimeout {
					if tmo >= 0 {
						return false
					}
					tmo = pos
				}
			}
			if core < 0 {
				return false
			}
			if (tmo >= 0) != (op.CancelSrc == SrcTimeout) {
				return false
			}
			if tmo > core {
				return false
			}
			if op.CancelSrc == SrcResultCancel && !entryAsync(op.Entry) {
				return false
			}
		}
	}
	return n == 1
}

// earlyFull: a bulkhead of this execution that answered ErrFull although its max wait time had not elapsed.
func earlyFull(sc *Scenario, v *ExecView) *Node {
	for _, n := range v.Nodes {
		p := v.policyAt(sc, n.Pos)
		if p == nil || p.Kind != KBulkhead || n.Exit == nil || len(n.Children) != 0 {
			continue
		}
		if errors.Is(n.Exit.Err, bulkhead.ErrFull) && n.Exit.T-n.Enter.T < p.MaxWait {
			return n
		}
	}
	return nil
}

func gateRejection(err error) bool {
	return err != nil && (errors.Is(err, bulkhead.ErrFull) || errors.Is(err, ratelimiter.ErrExceeded) || errors.Is(err, circuitbreaker.ErrOpen))
}

// hedgeProducedBefore: got equals the outcome of a hedge attempt that had finished before sequence number seq.
func hedgeProducedBefore(sc *Scenario, v *ExecView, got *Event, seq int) bool {
	for _, n := range v.Nodes {
		p := v.policyAt(sc, n.Pos)
		if p == nil || p.Kind != KHedge {
			continue
		}
		for _, ch := range n.Children {
			// the attempt's own result: what a cancelled (losing) attempt returns is not a result of the execution
			if ch.Exit != nil && ch.Exit.Seq < seq && !canceledAt(ch.Exit) && sameOutcome(got.Val, got.Err, ch.Exit.Val, ch.Exit.Err) {
				return true
			}
		}
	}
	return false
}

// timeoutFiredInCurrentAttempt: some Timeout of the execution has fired and the attempt it belongs
// to is not over: no retry policy enclosing it has scheduled or started a retry since (one
// scheduled by a sibling hedge attempt, which shares the execution's recorded cancellation
// result, does not end the attempt that timed out).
func timeoutFiredInCurrentAttempt(res *RunResult, v *ExecView) bool {
	anc := func(a, t int) bool {
		for t >= 0 && t < len(res.Tasks) {
			if t == a {
				return true
			}
			t = res.Tasks[t].Parent
		}
		return false
	}
	for i, e := range v.Listeners {
		if e.L != LTimeoutExceeded {
			continue
		}
		superseded := false
		for _, x := range v.Listeners[i+1:] {
			if (x.L == LRetryScheduled || x.L == LRetry) && anc(x.Task, e.Task) {
				superseded = true
			}
		}
		if !superseded {
			return true
		}
	}
	return false
}

// decidedBeforeCancel: the outermost policy call received its last inner result before the
// cancellation took effect (sequence number c1seq) and, from that result on, no retry was
// scheduled, no hedge started and no layer was entered - it was not waiting for anything, it had
// decided and was returning.
func decidedBeforeCancel(v *ExecView, c1seq int) bool {
	root := v.Root
	if root == nil || root.Exit == nil || len(root.Children) == 0 {
		return false
	}
	last := -1
	for _, ch := range root.Children {
		if ch.Exit == nil {
			return false
		}
		if ch.Exit.Seq > last {
			last = ch.Exit.Seq
		}
	}
	if last >= c1seq {
		return false
	}
	for _, e := range v.Events {
		if e.Seq <= last || e.Seq >= root.Exit.Seq {
			continue
		}
		switch e.Kind {
		case EvProbeEnter, EvFnStart, EvFallbackFn:
			return false
		case EvListener:
			if e.L == LRetryScheduled || e.L == LHedge || e.L == LRetry {
				return false
			}
		}
	}
	return true
}

// quiescentAtCancel: when the cancellation took effect nothing of the execution was in flight or
// pending - every function invocation had returned, no retry was scheduled and not yet started, no
// attempt was waiting at a bulkhead or rate limiter - and nothing was started afterwards. What
// the caller receives is then made of results that all existed before the cancellation: the
// policies were only handing them upwards.
func quiescentAtCancel(sc *Scenario, v *ExecView, c1seq int, tc time.Duration) bool {
	if v.OpEnd == nil {
		return false
	}
	inflight := 0
	pending := map[[2]int]bool{}
	for _, e := range v.Events {
		if e.Seq >= v.OpEnd.Seq {
			break
		}
		after := e.Seq > c1seq
		switch e.Kind {
		case EvFnStart, EvFallbackFn:
			if after {
				return false
			}
			inflight++
		case EvFnEnd, EvFallbackFnEnd:
			if after {
				return false
			}
			inflight--
		case EvProbeEnter:
			if after {
				return false
			}
		case EvListener:
			switch e.L {
			case LRetryScheduled:
				if after {
					return false
				}
				pending[[2]int{e.Task, e.Pos}] = true
			case LRetry:
				if after {
					return false
				}
				pending[[2]int{e.Task, e.Pos}] = false
			case LHedge:
				if after {
					return false
				}
			}
		}
	}
	if inflight != 0 {
		return false
	}
	for _, p := range pending {
		if p {
			return false
		}
	}
	for _, n := range v.Nodes {
		p := v.policyAt(sc, n.Pos)
		if p == nil || (p.Kind != KBulkhead && p.Kind != KLimiter) {
			continue
		}
		// (a deadline is an instant, not a logged action: a wait that ends at that very instant was still going on)
		if n.Enter.Seq < c1seq && len(n.Children) == 0 && (n.Exit == nil || n.Exit.Seq > c1seq || n.Exit.T >= tc) && n.Enter.T < tc {
			return false // was waiting for a permit
		}
	}
	return true
}
