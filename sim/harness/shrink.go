package harness

import (
	"encoding/json"
	"os"
	"testing"
	"time"

	"dsim/simrt"
)

// shrink minimises a replay file while the same oracle keeps failing
// (DESIGN §5.2) and writes the result to job.Out.
func shrink(t *testing.T, job *Job) {
	b, err := os.ReadFile(job.Replay)
	if err != nil {
		t.Fatal(err)
	}
	var rf ReplayFile
	if err := json.Unmarshal(b, &rf); err != nil {
		t.Fatal(err)
	}
	p := props[rf.Property]
	if p == nil {
		t.Fatalf("unknown property %s", rf.Property)
	}
	budget := 25 * time.Second
	if job.MaxWallS > 0 {
		budget = time.Duration(job.MaxWallS) * time.Second
	}
	deadline := time.Now().Add(budget)
	sh := &shrinker{t: t, p: p, oracle: rf.Oracle, deadline: deadline}
	cur := rf
	// confirm
	if v, res := replayOnce(t, p, &cur); !hasOracle(v, rf.Oracle) {
		out := map[string]any{"reproduced": false}
		if res.Out != nil {
			out["diverged"] = res.Out.ReplayDiverged
		}
		ob, _ := json.Marshal(out)
		os.WriteFile(job.Out+".fail", ob, 0o644)
		t.Logf("shrink: original replay did not reproduce")
		return
	}
	improved := true
	for improved && time.Now().Before(deadline) {
		improved = false
		for _, cand := range candidates(cur.Scenario) {
			if !time.Now().Before(deadline) {
				break
			}
			cand.normalise()
			if !terminates(cand) || (p.Valid != nil && !p.Valid(cand)) {
				continue
			}
			if nrf := sh.try(&cur, cand); nrf != nil {
				cur = *nrf
				improved = true
				break
			}
		}
	}
	// shorten the decision list: replay a prefix, default continuation afterwards
	lo, hi := 0, len(cur.Decisions)
	for lo < hi && time.Now().Before(deadline) {
		mid := (lo + hi) / 2
		c2 := cur
		c2.Decisions = append([]simrt.Decision{}, cur.Decisions[:mid]...)
		if v, _ := replayOnce(t, p, &c2); hasOracle(v, rf.Oracle) {
			hi = mid
		} else {
			lo = mid + 1
		}
	}
	if hi < len(cur.Decisions) {
		c2 := cur
		c2.Decisions = append([]simrt.Decision{}, cur.Decisions[:hi]...)
		if v, _ := replayOnce(t, p, &c2); hasOracle(v, rf.Oracle) {
			cur = c2
		}
	}
	// final: re-record the full decision list, hash and trace of the minimised run
	v, res := replayOnce(t, p, &cur)
	if hasOracle(v, rf.Oracle) && res.Out != nil {
		cur.Decisions = res.Out.Decisions
		cur.TraceHash = res.Out.TraceHash
		cur.Trace = res.traceText(400)
		cur.Schedule = scheduleText(res)
		for _, x := range v {
			if x.Oracle == rf.Oracle {
				cur.Msg, cur.Sig = x.Msg, x.Sig
				break
			}
		}
		cur.Minimised = true
	} else {
		cur = rf
	}
	ob, _ := json.MarshalIndent(&cur, "", " ")
	os.WriteFile(job.Out, ob, 0o644)
}

func hasOracle(v []Violation, oracle string) bool {
	for _, x := range v {
		if x.Oracle == oracle {
			return true
		}
	}
	return false
}

type shrinker struct {
	t        *testing.T
	p        *PropDef
	oracle   string
	deadline time.Time
}

// try checks whether scenario cand still violates the oracle under some
// schedule close to the current one; it returns the new replay record if so.
func (s *shrinker) try(cur *ReplayFile, cand *Scenario) *ReplayFile {
	attempt := func(sc *Scenario, cfg CfgJSON, dec []simrt.Decision) *ReplayFile {
		rf := *cur
		rf.Scenario = sc
		rf.Cfg = cfg
		rf.Decisions = dec
		v, res := replayOnce(s.t, s.p, &rf)
		if hasOracle(v, s.oracle) && res.Out != nil {
			rf.Decisions = res.Out.Decisions
			rf.TraceHash = res.Out.TraceHash
			return &rf
		}
		return nil
	}
	// same decisions
	if r := attempt(cand, cur.Cfg, cur.Decisions); r != nil {
		return r
	}
	// default (serial) continuation from the start
	if r := attempt(cand, cur.Cfg, []simrt.Decision{}); r != nil {
		return r
	}
	// fault-point sweep for scenarios with a step-triggered fault
	if hasStepFault(cand) {
		base := runScenario(s.t, baseOf(cand), simrt.Config{Replay: []simrt.Decision{}})
		if base.Out != nil {
			n := base.Out.Steps
			if n > 300 {
				n = 300
			}
			for k := 1; k <= n && time.Now().Before(s.deadline); k++ {
				if r := attempt(sweepAt(cand, k), cur.Cfg, []simrt.Decision{}); r != nil {
					return r
				}
			}
		}
	}
	// a few fresh schedules
	for i := 0; i < 24 && time.Now().Before(s.deadline); i++ {
		cfg := cur.Cfg
		cfg.Seed = simrt.Mix(cur.Cfg.Seed, uint64(i+1))
		rf := *cur
		rf.Scenario = cand
		rf.Cfg = cfg
		rf.Decisions = nil
		c := cfg.cfg()
		res := runScenario(s.t, cand, c)
		if res.Out == nil {
			continue
		}
		cc := &checkCtx{T: s.t, Prop: s.p.ID, Res: res, Cov: map[string]int{}, baseCfg: c}
		cc.Views = analyse(res)
		commonChecks(cc)
		s.p.Check(cc)
		if hasOracle(append(cc.Viol, res.Log.Viol...), s.oracle) {
			rf.Decisions = res.Out.Decisions
			rf.TraceHash = res.Out.TraceHash
			return &rf
		}
	}
	return nil
}

func hasStepFault(sc *Scenario) bool {
	for _, c := range sc.Clients {
		for _, op := range c.Ops {
			if op.CancelStep > 0 || op.ProbeStep > 0 {
				return true
			}
		}
	}
	return false
}

// candidates lists simpler variants of sc, most aggressive first.
func candidates(sc *Scenario) []*Scenario {
	var out []*Scenario
	add := func(f func(c *Scenario) bool) {
		c := cloneScenario(sc)
		if f(c) {
			out = append(out, c)
		}
	}
	// drop a client
	for i := range sc.Clients {
		if len(sc.Clients) > 1 {
			add(func(c *Scenario) bool { c.Clients = append(c.Clients[:i], c.Clients[i+1:]...); return true })
		}
	}
	// drop an op
	for i := range sc.Clients {
		for j := range sc.Clients[i].Ops {
			if len(sc.Clients[i].Ops) > 1 {
				add(func(c *Scenario) bool {
					c.Clients[i].Ops = append(c.Clients[i].Ops[:j], c.Clients[i].Ops[j+1:]...)
					return true
				})
			}
		}
	}
	// drop a policy from a stack
	for i := range sc.Stacks {
		for j := range sc.Stacks[i] {
			if len(sc.Stacks[i]) > 1 {
				add(func(c *Scenario) bool { c.Stacks[i] = append(c.Stacks[i][:j], c.Stacks[i][j+1:]...); return true })
			}
		}
	}
	// drop readers
	for i := range sc.Clients {
		for j := range sc.Clients[i].Ops {
			op := sc.Clients[i].Ops[j]
			for k := range op.Readers {
				add(func(c *Scenario) bool {
					o := &c.Clients[i].Ops[j]
					o.Readers = append(o.Readers[:k], o.Readers[k+1:]...)
					return true
				})
				if len(op.Readers[k]) > 1 {
					add(func(c *Scenario) bool {
						o := &c.Clients[i].Ops[j]
						o.Readers[k] = o.Readers[k][:len(o.Readers[k])-1]
						return true
					})
				}
			}
		}
	}
	// shorten scripts
	for i := range sc.Scripts {
		if n := len(sc.Scripts[i].Outcomes); n > 1 {
			add(func(c *Scenario) bool { c.Scripts[i].Outcomes = c.Scripts[i].Outcomes[:n-1]; return true })
			add(func(c *Scenario) bool { c.Scripts[i].Outcomes = c.Scripts[i].Outcomes[1:]; return true })
		}
		for j, o := range sc.Scripts[i].Outcomes {
			if o.Dur > 0 {
				add(func(c *Scenario) bool { c.Scripts[i].Outcomes[j].Dur = 0; return true })
			}
			if o.Err != ENil && o.Err != EA {
				add(func(c *Scenario) bool { c.Scripts[i].Outcomes[j].Err = EA; return true })
			}
			if o.Result != 0 {
				add(func(c *Scenario) bool { c.Scripts[i].Outcomes[j].Result = 0; return true })
			}
		}
	}
	// simplify policies
	for i, p := range sc.Policies {
		zero := PolicySpec{}
		_ = zero
		if !p.Handle.empty() {
			add(func(c *Scenario) bool { c.Policies[i].Handle = Cond{}; return true })
		}
		if !p.Abort.empty() {
			add(func(c *Scenario) bool { c.Policies[i].Abort = Cond{}; return true })
		}
		if !p.Cancel.empty() {
			add(func(c *Scenario) bool { c.Policies[i].Cancel = Cond{}; return true })
		}
		if p.Kind == KRetry {
			if p.MaxRetries > 1 || p.MaxRetries == -1 {
				add(func(c *Scenario) bool { c.Policies[i].MaxRetries = 1; return true })
			}
			if p.Jitter != 0 || p.JitterFactor != 0 {
				add(func(c *Scenario) bool { c.Policies[i].Jitter, c.Policies[i].JitterFactor = 0, 0; return true })
			}
			if p.DelayKind != DelayNone && p.DelayKind != DelayFixed {
				add(func(c *Scenario) bool { c.Policies[i].DelayKind = DelayFixed; return c.Policies[i].Delay != 0 })
			}
			if len(p.DelayFn) > 0 {
				add(func(c *Scenario) bool { c.Policies[i].DelayFn = nil; return true })
			}
			if p.MaxDuration != 0 {
				add(func(c *Scenario) bool { c.Policies[i].MaxDuration = 0; return true })
			}
			if p.ReturnLast || p.MaxAttempts {
				add(func(c *Scenario) bool {
					c.Policies[i].ReturnLast, c.Policies[i].MaxAttempts = false, false
					return true
				})
			}
		}
		if p.Kind == KHedge && p.MaxHedges > 1 {
			add(func(c *Scenario) bool { c.Policies[i].MaxHedges = 1; return true })
		}
		if p.Kind == KFallback && p.FbDur != 0 {
			add(func(c *Scenario) bool { c.Policies[i].FbDur = 0; return true })
		}
	}
	// simplify ops
	for i := range sc.Clients {
		for j, op := range sc.Clients[i].Ops {
			if op.Kind == "exec" && op.Ctx == CtxCancelValue {
				add(func(c *Scenario) bool { c.Clients[i].Ops[j].Ctx = CtxCancel; return true })
			}
			if op.Kind == "exec" && op.Ctx == CtxValue && op.CancelSrc != SrcNone {
				add(func(c *Scenario) bool { c.Clients[i].Ops[j].Ctx = CtxNone; return true })
			}
		}
	}
	return out
}
