package harness

import (
	"os"
	"runtime"
	"testing"
)

func TestMain(m *testing.M) {
	runtime.GOMAXPROCS(1)
	os.Exit(m.Run())
}

func TestWorker(t *testing.T) { workerMain(t) }
