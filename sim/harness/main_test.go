package harness

import (
	"os"
	"runtime"
	"strconv"
	"testing"
)

func TestMain(m *testing.M) {
	n := 1
	if v := os.Getenv("DSIM_SELFTEST_GOMAXPROCS"); v != "" {
		// honoured only by the determinism self-test
		if k, err := strconv.Atoi(v); err == nil && k > 0 {
			n = k
		}
	}
	runtime.GOMAXPROCS(n)
	os.Exit(m.Run())
}

func TestWorker(t *testing.T) { workerMain(t) }
