package harness

import (
	"context"
	"errors"
	"fmt"
	"time"

	"github.com/anishathalye/porcupine"
	"github.com/failsafe-go/failsafe-go/ratelimiter"
)

func init() {
	register(&PropDef{ID: "C05", Level: "exploration", Gen: genC05, Check: checkC05, Valid: validC05})
}

func genC05(r *Rnd, t Tier) *Case {
	unit := pick(r, time.Millisecond, time.Millisecond, time.Microsecond, time.Second)
	sc := &Scenario{Family: "c05"}
	p := PolicySpec{Kind: KLimiter}
	if r.Bool() {
		p.Smooth = true
		p.Interval = time.Duration(r.Range(1, 12)) * unit
	} else {
		p.MaxExec = uint(r.Range(1, 5))
		p.Period = time.Duration(r.Range(2, 30)) * unit
	}
	p.MaxWait = pick(r, 0, time.Duration(r.Range(1, 40))*unit, 500*unit)
	sc.Policies = []PolicySpec{p}
	sc.Stacks = [][]int{{0}}
	sc.Scripts = []Script{{Outcomes: []Outcome{{}}}}
	slot := p.Interval
	if !p.Smooth {
		slot = p.Period
	}
	concurrent := r.P(0.35)
	nclients := 1
	if concurrent {
		nclients = r.Range(2, 4)
	}
	total := r.Range(4, 25)
	if t.Thorough {
		total = r.Range(4, 60)
	}
	if concurrent && total > 20 {
		total = 20
	}
	for ci := 0; ci < nclients; ci++ {
		var ops []Op
		n := total / nclients
		if n < 2 {
			n = 2
		}
		for i := 0; i < n; i++ {
			k := uint(pick(r, 1, 1, 1, 2, 3, 5))
			switch r.Intn(12) {
			case 0, 1:
				ops = append(ops, Op{Kind: "rl.try", N: k})
			case 2, 3:
				ops = append(ops, Op{Kind: "rl.reserve", N: k})
			case 4, 5:
				ops = append(ops, Op{Kind: "rl.tryreserve", N: k, Dur: pick(r, 0, slot-1, slot, slot+1, time.Duration(r.Range(0, 5))*slot, time.Duration(r.Range(0, 5))*slot-1, -1, -2, -slot, -time.Duration(r.Range(2, 50))*unit)})
			case 6:
				if r.P(0.3) {
					ops = append(ops, Op{Kind: "rl.acquire_nomax", N: k}) // AcquirePermits: waits as long as it takes
					if r.P(0.4) {
						ops[len(ops)-1].CancelAt = pick(r, slot/2, slot, slot+1, time.Duration(r.Range(1, 3))*slot-1, time.Duration(r.Range(1, 40))*unit) // the caller gives up
					}
				} else {
					ops = append(ops, Op{Kind: "rl.acquire", N: k, Dur: pick(r, 0, slot, time.Duration(r.Range(0, 4))*slot, time.Duration(r.Range(0, 4))*slot+1, -2, -time.Duration(r.Range(2, 50))*unit)})
					if r.P(0.2) {
						ops[len(ops)-1].CancelAt = pick(r, slot/2, slot, slot+1, time.Duration(r.Range(1, 3))*slot-1)
					}
				}
			case 7:
				if !concurrent {
					ops = append(ops, Op{Kind: "exec", Entry: pick(r, EnGet, EnGetExec)})
				} else {
					ops = append(ops, Op{Kind: "rl.try", N: 1})
				}
			default:
				var d time.Duration
				switch r.Intn(8) {
				case 0:
					d = slot - 1
				case 1:
					d = slot
				case 2:
					d = slot + 1
				case 3:
					d = 1
				case 4:
					d = time.Duration(r.Range(2, 40)) * slot // long idle gap
				case 5:
					d = -slot // to the next slot/period boundary (relative clock starts at the same instant as the wall clock base)
				default:
					d = time.Duration(r.Range(1, 20)) * unit
				}
				if concurrent {
					d = pick(r, 0, 1, slot, time.Duration(r.Range(0, 3))*unit)
				}
				ops = append(ops, Op{Kind: "sleep", Dur: d})
			}
		}
		for i := range ops {
			if len(ops[i].Kind) > 3 && ops[i].Kind[:3] == "rl." && ops[i].N == 1 && r.Bool() {
				ops[i].Arg = 1 // the single-permit form of the call
			}
		}
		sc.Clients = append(sc.Clients, Client{Ops: ops})
	}
	c := &Case{Sc: sc}
	if !concurrent {
		c.Cfg = simrtSerial()
	} else {
		// concurrent callers may also be descheduled in the middle of a call (between reading the clock and taking the lock)
		c.Cfg = swarmConfig(r, r.U64(), 100)
		if r.P(0.6) {
			c.Cfg.StallP = pick(r, 0.03, 0.1)
			c.Cfg.StallDurs = []time.Duration{1, slot / 2, slot, slot + 1, 3 * slot}
		}
	}
	return c
}

func validC05(sc *Scenario) bool {
	return len(sc.Policies) > 0 && sc.Policies[0].Kind == KLimiter
}

type rlOp struct {
	kind    string
	k       int
	maxWait time.Duration
	t       time.Duration // request instant
	call    int64
	ret     int64
	retT    time.Duration
	out     time.Duration // wait, or -1 refused
	gaveUp  bool          // a blocking acquire whose caller's context ended while it waited
	task    int
	desc    string
}

// limiterOps extracts the permit requests of the run in invocation order.
func limiterOps(c *checkCtx) []rlOp {
	sc := c.Res.Sc
	p := &sc.Policies[0]
	var ops []rlOp
	ev := c.Res.Log.Ev
	pending := map[int]*Event{}
	for i := range ev {
		e := &ev[i]
		if e.Kind == EvStandalone && e.Pos == 0 && len(e.Str) > 3 && e.Str[:3] == "rl." {
			if e.L == 0 {
				pending[e.Task] = e
				continue
			}
			inv := pending[e.Task]
			if inv == nil {
				continue
			}
			op := rlOp{kind: e.Str, k: int(e.B), t: inv.T, call: int64(inv.Seq), ret: int64(e.Seq), retT: e.T, task: e.Task, desc: e.String()}
			clientOp := findRlOp(sc, ev, e)
			switch e.Str {
			case "rl.try":
				op.maxWait = 0
				if e.A == 1 {
					op.out = 0
				} else {
					op.out = -1
				}
			case "rl.reserve":
				op.maxWait = -1
				op.out = time.Duration(e.A)
			case "rl.tryreserve":
				op.maxWait = clientOp.Dur
				op.out = time.Duration(e.A)
			case "rl.acquire", "rl.acquire_nomax":
				op.maxWait = clientOp.Dur
				if e.Str == "rl.acquire_nomax" {
					op.maxWait = -1
				}
				if e.A == 1 {
					op.out = -2 // granted; wait not returned
				} else {
					op.out = -1
					if errors.Is(e.Err, context.DeadlineExceeded) || errors.Is(e.Err, context.Canceled) {
						op.gaveUp = true
					}
				}
			}
			ops = append(ops, op)
		}
	}
	// executions through the limiter
	for _, v := range c.Views {
		for _, n := range v.Nodes {
			if n.Pos != 0 || n.Exit == nil {
				continue
			}
			op := rlOp{kind: "exec", k: 1, maxWait: p.MaxWait, t: n.Enter.T, call: int64(n.Enter.Seq), ret: int64(n.Exit.Seq), retT: n.Exit.T, task: n.Task, desc: n.Enter.String()}
			if len(n.Children) == 0 {
				op.out = -1
				if !errors.Is(n.Exit.Err, ratelimiter.ErrExceeded) {
					continue
				}
			} else {
				op.out = n.Children[0].Enter.T - n.Enter.T
				op.ret = int64(n.Children[0].Enter.Seq)
				op.retT = n.Children[0].Enter.T
			}
			ops = append(ops, op)
		}
	}
	// invocation order
	for i := 1; i < len(ops); i++ {
		for j := i; j > 0 && ops[j].call < ops[j-1].call; j-- {
			ops[j], ops[j-1] = ops[j-1], ops[j]
		}
	}
	return ops
}

func findRlOp(sc *Scenario, ev []Event, e *Event) *Op {
	// k-th rl.* return event of that task corresponds to the k-th rl.* op of the client running in that task
	k := 0
	for i := range ev {
		x := &ev[i]
		if x.Kind == EvStandalone && x.L == 1 && x.Task == e.Task && len(x.Str) > 3 && x.Str[:3] == "rl." {
			if x.Seq == e.Seq {
				break
			}
			k++
		}
	}
	// client index = order of client tasks: task ids of clients are 0..n-1 in spawn order
	ci := e.Task
	if ci < 0 || ci >= len(sc.Clients) {
		return &Op{}
	}
	j := 0
	for oi := range sc.Clients[ci].Ops {
		op := &sc.Clients[ci].Ops[oi]
		if len(op.Kind) > 3 && op.Kind[:3] == "rl." {
			if j == k {
				return op
			}
			j++
		}
	}
	return &Op{}
}

func checkC05(c *checkCtx) {
	if !checkProgress(c, "C05.") {
		return
	}
	sc := c.Res.Sc
	p := &sc.Policies[0]
	ops := limiterOps(c)
	if len(ops) == 0 {
		return
	}
	slot := p.Interval
	perSlot := 1
	if !p.Smooth {
		slot, perSlot = p.Period, int(p.MaxExec)
	}
	// blocking acquires never succeed before their wait has elapsed, never later either
	// (checked against the model below); here: model-free history invariant
	type grant struct {
		usable time.Duration
		k      int
	}
	var grants []grant
	sequential := len(sc.Clients) == 1
	if sequential {
		m := newRlModel(p)
		uncertain := false
		for _, op := range ops {
			c.cov("c05.requests")
			if op.gaveUp {
				// whether a caller that gave up keeps its reservation is not stated: from here on only the
				// model-free rate invariant is applied
				c.cov("c05.blocking_wait_given_up")
				uncertain = true
				continue
			}
			if uncertain {
				if g, ok := observedGrant(c, op); ok {
					grants = append(grants, grant{g, op.k})
				}
				continue
			}
			got := op.out
			blockingOp := op.kind == "rl.acquire" || op.kind == "rl.acquire_nomax" || op.kind == "exec"
			alts := m.requestAlts(op.t, op.k, op.maxWait)
			sel := alts[0]
			for _, a := range alts {
				if (blockingOp && (got == -1) == (a.want == -1)) || (!blockingOp && got == a.want) {
					sel = a
					break
				}
			}
			if len(alts) > 1 {
				c.cov("c05.negative_max_wait_zero_wait")
			}
			want := sel.want
			m = sel.st
			switch {
			case op.kind == "rl.acquire" || op.kind == "rl.acquire_nomax" || op.kind == "exec":
				granted := got != -1
				if granted != (want != -1) {
					c.fail("C05.model", "refusal", fmt.Sprintf("%s at t=%v for %d permit(s) with max wait %v: granted=%v but the wait is %v", op.kind, op.t, op.k, op.maxWait, granted, want))
					return
				}
				if granted {
					if el := op.retT - op.t; el != want {
						id := "early"
						if el > want {
							id = "late"
						}
						c.fail("C05.blocking", id, fmt.Sprintf("%s at t=%v for %d permit(s) returned after %v but the permit becomes usable after %v", op.kind, op.t, op.k, el, want))
						return
					}
					grants = append(grants, grant{op.t + want, op.k})
					if want > 0 {
						c.cov("c05.blocking_wait")
					}
				} else {
					c.cov("c05.refused")
				}
			default:
				if got != want {
					c.fail("C05.model", "wait", fmt.Sprintf("%s at t=%v for %d permit(s) with max wait %v returned %v but the earliest admissible grant gives %v", op.kind, op.t, op.k, op.maxWait, waitStr(got), waitStr(want)))
					return
				}
				if got >= 0 {
					grants = append(grants, grant{op.t + got, op.k})
				} else {
					c.cov("c05.refused")
				}
			}
			if want > 0 {
				c.cov("c05.deficit")
			}
		}
	} else {
		c.cov("c05.concurrent_histories")
		gaveUp := false
		for _, op := range ops {
			if op.gaveUp {
				gaveUp = true
				c.cov("c05.blocking_wait_given_up")
			}
		}
		if !gaveUp {
			checkLimiterLinearizable(c, p, ops)
		}
		for _, op := range ops {
			if g, ok := observedGrant(c, op); ok {
				grants = append(grants, grant{g, op.k})
			}
		}
	}
	// model-free invariant: requests whose last permit becomes usable in one slot/period
	count := map[int64]int{}
	for _, g := range grants {
		q := int64(g.usable) / int64(slot)
		count[q]++
		if count[q] > perSlot {
			c.fail("C05.rate", "over-admission", fmt.Sprintf("%d requests were granted permits that become usable in the same %s starting at %v; the limit is %d", count[q], map[bool]string{true: "interval slot", false: "period"}[p.Smooth], time.Duration(q*int64(slot)), perSlot))
			return
		}
	}
}

func waitStr(d time.Duration) string {
	if d == -1 {
		return "refused"
	}
	return d.String()
}

type rlIn struct {
	k        int
	maxWait  time.Duration
	t0, t1   time.Duration // the call read the clock somewhere between its invocation and its return
	blocking bool
}

// stepInterval returns the model states reachable by a request whose clock
// reading lies in [in.t0, in.t1] and whose answer was out.
func stepInterval(m *rlModel, slot time.Duration, in rlIn, out time.Duration) []*rlModel {
	var res []*rlModel
	add := func(t time.Duration) {
		if t < in.t0 || t > in.t1 {
			return
		}
		for _, a := range m.requestAlts(t, in.k, in.maxWait) {
			c, want := a.st, a.want
			ok := false
			if in.blocking {
				ok = (out == -1) == (want == -1) && (want == -1 || t+want <= in.t1)
			} else {
				ok = out == want
			}
			if !ok {
				continue
			}
			dup := false
			for _, r := range res {
				if r.equal(c) {
					dup = true
				}
			}
			if !dup {
				res = append(res, c)
			}
		}
	}
	for q := int64(in.t0) / int64(slot); q <= int64(in.t1)/int64(slot); q++ {
		lo := time.Duration(q * int64(slot))
		if lo < in.t0 {
			lo = in.t0
		}
		hi := time.Duration((q+1)*int64(slot) - 1)
		if hi > in.t1 {
			hi = in.t1
		}
		add(lo)
		add(hi)
		// the instant at which the answer would be exactly out, if the wait is positive
		if out > 0 {
			probe := m.clone()
			if w := probe.request(lo, in.k, -1); w >= 0 {
				add(lo + w - out)
			}
		}
	}
	return res
}

func checkLimiterLinearizable(c *checkCtx, p *PolicySpec, ops []rlOp) {
	if len(ops) > 24 {
		ops = ops[:24]
	}
	slot := p.Interval
	if !p.Smooth {
		slot = p.Period
	}
	nm := porcupine.NondeterministicModel{
		Init: func() []interface{} { return []interface{}{newRlModel(p)} },
		Step: func(state, input, output interface{}) []interface{} {
			next := stepInterval(state.(*rlModel), slot, input.(rlIn), output.(time.Duration))
			out := make([]interface{}, len(next))
			for i, n := range next {
				out[i] = n
			}
			return out
		},
		Equal: func(a, b interface{}) bool { return a.(*rlModel).equal(b.(*rlModel)) },
	}
	model := nm.ToModel()
	var hist []porcupine.Operation
	for _, op := range ops {
		blocking := op.kind == "rl.acquire" || op.kind == "rl.acquire_nomax" || op.kind == "exec"
		out := op.out
		if blocking && out != -1 {
			out = 0
		}
		hist = append(hist, porcupine.Operation{ClientId: op.task, Input: rlIn{k: op.k, maxWait: op.maxWait, t0: op.t, t1: op.retT, blocking: blocking}, Call: op.call, Output: out, Return: op.ret})
	}
	res := porcupine.CheckOperationsTimeout(model, hist, 10*time.Second)
	switch res {
	case porcupine.Illegal:
		c.fail("C05.linearizable", "illegal", fmt.Sprintf("the history of %d concurrent permit requests is not linearizable with respect to the greedy grant model: %s", len(hist), opsText(ops)))
	case porcupine.Unknown:
		c.cov("c05.linearizability_inconclusive")
	default:
		c.cov("c05.linearizable_histories")
	}
}

func opsText(ops []rlOp) string {
	s := ""
	for _, op := range ops {
		s += fmt.Sprintf("[task %d %s k=%d maxWait=%v t=%v..%v -> %s] ", op.task, op.kind, op.k, op.maxWait, op.t, op.retT, waitStr(op.out))
	}
	return s
}

// observedGrant returns the instant at which the permits of a granted request become usable,
// taken from the history alone: request instant plus the returned wait for the non-blocking
// calls whose instant is known exactly, the return instant for a blocking acquire (it returns
// when its wait has elapsed) in runs without injected stalls.
func observedGrant(c *checkCtx, op rlOp) (time.Duration, bool) {
	blocking := op.kind == "rl.acquire" || op.kind == "rl.acquire_nomax" || op.kind == "exec"
	switch {
	case op.gaveUp || op.out == -1:
		return 0, false
	case !blocking && op.out >= 0 && op.t == op.retT:
		return op.t + op.out, true
	case blocking && c.Res.Out.Stalls == 0:
		return op.retT, true
	}
	return 0, false
}
