package harness

import (
	"fmt"
	"reflect"
	"time"

	"github.com/anishathalye/porcupine"
	"github.com/failsafe-go/failsafe-go"
)

func init() {
	register(&PropDef{ID: "C15", Level: "fault_enumeration", Gen: genC15, Check: checkC15, Valid: validC15})
}

func genC15(r *Rnd, t Tier) *Case {
	unit := ms
	c := genC01(r, Tier{})
	sc := c.Sc
	sc.Family = "c15"
	// one asynchronous execution
	var op Op
	for _, o := range sc.Clients[0].Ops {
		if o.Kind == "exec" {
			op = o
			break
		}
	}
	op.Entry = pick(r, EnRunAsync, EnRunExecAsync, EnGetAsync, EnGetExecAsync, EnGetExecAsync)
	op.Ctx = pick(r, CtxNone, CtxBackground, CtxValue)
	for i := range sc.Scripts[op.Script].Outcomes {
		o := &sc.Scripts[op.Script].Outcomes[i]
		o.Coop = pick(r, CoopReturn, CoopReturn, CoopResult)
		if o.Dur == 0 && r.P(0.5) {
			o.Dur = time.Duration(r.Range(1, 10)) * unit
		}
	}
	nr := r.Range(1, 3)
	if t.Thorough {
		nr = r.Range(1, 5)
	}
	for i := 0; i < nr; i++ {
		var rd []ReaderOp
		for j, n := 0, r.Range(1, 5); j < n; j++ {
			ro := ReaderOp{Kind: pick(r, RdIsDone, RdIsDone, RdDonePoll, RdDonePoll, RdDoneWait, RdGet, RdResult, RdError)}
			if r.P(0.4) {
				ro.Wait = time.Duration(r.Range(0, 25)) * unit
			}
			rd = append(rd, ro)
		}
		op.Readers = append(op.Readers, rd)
	}
	sweep := false
	if r.P(0.6) {
		op.CancelSrc = SrcResultCancel
		if r.P(0.8) {
			op.CancelStep = never
			sweep = true
		} else {
			op.CancelAt = time.Duration(r.Range(0, 40)) * unit
		}
	} else {
		// no cancellation: sweep a probing reader over every step instead
		op.ProbeStep = never
		sweep = true
	}
	sc.Clients = []Client{{Ops: []Op{op}}}
	terminating(sc)
	return &Case{Sc: sc, Sweep: sweep}
}

func validC15(sc *Scenario) bool {
	n := 0
	for _, c := range sc.Clients {
		for _, op := range c.Ops {
			if op.Kind == "exec" {
				n++
				if !entryAsync(op.Entry) {
					return false
				}
			}
		}
	}
	return n == 1
}

type futIn struct{ kind int }
type futOut struct {
	done bool
	val  any
	err  error
	has  int // bit 1: val meaningful, bit 2: err meaningful
}
type futState struct {
	done   bool
	known  bool
	val    any
	err    error
	hasVal bool
	hasErr bool
}

func checkC15(c *checkCtx) {
	if c.Res.Out.TaskOverflow {
		return
	}
	if !checkProgress(c, "C15.") {
		return
	}
	sc := c.Res.Sc
	for _, v := range c.Views {
		if !entryAsync(v.Op.Entry) {
			continue
		}
		// reader operations
		type rop struct {
			kind     int
			call, rt int64
			out      futOut
			task     int
		}
		var ops []rop
		pending := map[int]*Event{}
		firstDoneRet := -1
		for _, e := range v.Events {
			if e.Kind != EvAsync {
				continue
			}
			if e.B == 0 {
				pending[e.Task] = e
				continue
			}
			inv := pending[e.Task]
			if inv == nil || e.L == RdCancel {
				continue
			}
			o := futOut{done: e.Flags&FDone != 0}
			switch e.L {
			case RdGet:
				o.val, o.err, o.has = e.Val, e.Err, 3
			case RdResult:
				o.val, o.has = e.Val, 1
			case RdError:
				o.err, o.has = e.Err, 2
			}
			ops = append(ops, rop{kind: e.L, call: int64(inv.Seq), rt: int64(e.Seq), out: o, task: e.Task})
			if o.done && (firstDoneRet < 0 || e.Seq < firstDoneRet) {
				firstDoneRet = e.Seq
			}
		}
		// the client's own final Get
		if v.OpEnd != nil {
			ops = append(ops, rop{kind: RdGet, call: int64(v.OpEnd.Seq) - 1, rt: int64(v.OpEnd.Seq), out: futOut{done: true, val: v.OpEnd.Val, err: v.OpEnd.Err, has: 3}, task: v.OpEnd.Task})
		}
		if len(ops) > 0 {
			c.cov("c15.histories")
		}
		if len(ops) > 24 {
			ops = ops[:24]
		}
		model := porcupine.Model{
			Init: func() interface{} { return futState{} },
			Step: func(state, input, output interface{}) (bool, interface{}) {
				s := state.(futState)
				in := input.(futIn)
				out := output.(futOut)
				switch in.kind {
				case RdIsDone, RdDonePoll:
					if !out.done {
						return !s.done, s
					}
					s.done = true
					return true, s
				default:
					// blocking getters return only once done, and always the same values
					s.done = true
					if out.has&1 != 0 {
						if s.hasVal && !reflect.DeepEqual(s.val, out.val) {
							return false, s
						}
						s.val, s.hasVal = out.val, true
					}
					if out.has&2 != 0 {
						if s.hasErr && !sameErr(s.err, out.err) {
							return false, s
						}
						s.err, s.hasErr = out.err, true
					}
					return true, s
				}
			},
			Equal: func(a, b interface{}) bool {
				x, y := a.(futState), b.(futState)
				return x.done == y.done && x.hasVal == y.hasVal && x.hasErr == y.hasErr && reflect.DeepEqual(x.val, y.val) && sameErr(x.err, y.err)
			},
		}
		var hist []porcupine.Operation
		for _, o := range ops {
			hist = append(hist, porcupine.Operation{ClientId: o.task, Input: futIn{o.kind}, Call: o.call, Output: o.out, Return: o.rt})
		}
		if len(hist) > 0 {
			switch porcupine.CheckOperationsTimeout(model, hist, 10*time.Second) {
			case porcupine.Illegal:
				txt := ""
				for _, o := range ops {
					txt += fmt.Sprintf("[task %d op=%d call=#%d ret=#%d done=%v (%s,%s)] ", o.task, o.kind, o.call, o.rt, o.out.done, fmtVal(o.out.val), fmtErr(o.out.err))
				}
				c.fail("C15.future", "not-linearizable", fmt.Sprintf("exec %d: the observations of the ExecutionResult do not fit a future that completes once (op kinds: 0 IsDone, 1 Done poll, 2 Done wait, 3 Get, 4 Result, 5 Error): %s", v.ID, txt))
			case porcupine.Unknown:
				c.cov("c15.linearizability_inconclusive")
			default:
				c.cov("c15.linearizable_histories")
			}
		}
		// completion listeners run before anybody can observe completion
		if firstDoneRet >= 0 {
			for _, l := range []int{LExecDone, LExecSuccess, LExecFailure} {
				for _, e := range v.listeners(-1, l) {
					if e.Seq > firstDoneRet {
						c.fail("C15.listeners-first", "late-listener", fmt.Sprintf("exec %d: %s ran (event #%d) after a reader had already observed the result as done (event #%d)", v.ID, listenerNames[l], e.Seq, firstDoneRet))
					}
				}
			}
			if len(v.listeners(-1, LExecDone)) == 0 {
				c.fail("C15.listeners-first", "no-listener", fmt.Sprintf("exec %d: a reader observed completion but OnDone never ran", v.ID))
			}
		}
		// the future reports what the completion listeners were told: the listeners run before the result is
		// published, and nothing that happens in between (a Cancel arriving while a listener runs) changes it
		if d := v.listeners(-1, LExecDone); len(d) == 1 && v.OpEnd != nil && entryAsync(v.Op.Entry) {
			c.cov("c15.done_payload_checked")
			if v.Cancel1 != nil && v.Cancel1.Seq > d[0].Seq {
				c.cov("c15.cancel_after_listeners")
			}
			val := v.OpEnd.Val
			if !entryIsGet(v.Op.Entry) {
				val = d[0].Val
			}
			if !sameOutcome(d[0].Val, d[0].Err, val, v.OpEnd.Err) {
				c.fail("C15.listeners-agree", "done-result", fmt.Sprintf("exec %d: OnDone was told (%s, %s) but the ExecutionResult reports %s", v.ID, fmtVal(d[0].Val), fmtErr(d[0].Err), outcomeStr(v.OpEnd)))
			}
		}
		// Cancel taking effect before completion under a retry or hedge policy
		if v.Cancel1 != nil && v.OpEnd != nil {
			core := -1
			hasTimeout := false
			for pos := range v.Stack {
				k := v.policyAt(sc, pos).Kind
				if (k == KRetry || k == KHedge) && core < 0 {
					core = pos
				}
				if k == KTimeout && core < 0 {
					hasTimeout = true // a Timeout enclosing the retry/hedge may legitimately win with ErrExceeded
				}
			}
			if core >= 0 && !hasTimeout {
				for _, n := range v.Nodes {
					if n.Pos != core || n.Exit == nil {
						continue
					}
					// "Cancel took effect before completion": without hedged attempts, a function invocation
					// started after Cancel returned or spans the Cancel call; for a hedge policy, no attempt
					// had produced a result yet when Cancel returned
					workAhead := false
					hedged := false
					for pos := range v.Stack {
						if v.policyAt(sc, pos).Kind == KHedge {
							hedged = true
						}
					}
					if !hedged {
						// a retry had been scheduled and not yet started when Cancel ran: the execution had work ahead
						var lastSched, lastRetry int = -1, -1
						for _, e := range v.Listeners {
							// only retries scheduled by this policy call itself: one scheduled by a retry policy
							// further inside may already have been cut off by a Timeout between the two
							if e.Seq < v.Cancel1.Seq && e.Seq > n.Enter.Seq && e.Pos == v.Stack[core] && !inChildCall(n, e.Seq) {
								if e.L == LRetryScheduled {
									lastSched = e.Seq
								}
								if e.L == LRetry {
									lastRetry = e.Seq
								}
							}
						}
						if lastSched > lastRetry {
							workAhead = true
						}
						for i, fs := range v.FnStarts {
							if fs.Seq > v.Cancel1.Seq && fs.Seq < n.Exit.Seq {
								workAhead = true
							}
							if i < len(v.FnEnds) && fs.Seq < v.Cancel0.Seq && v.FnEnds[i].Seq > v.Cancel1.Seq && v.FnEnds[i].Seq < n.Exit.Seq {
								workAhead = true
							}
						}
					} else if v.policyAt(sc, core).Kind == KHedge {
						started, produced := false, false
						for _, ch := range n.Children {
							if ch.Enter.Seq < v.Cancel0.Seq {
								started = true
							}
							if ch.Exit != nil && ch.Exit.Seq < v.Cancel1.Seq {
								produced = true
							}
						}
						// nested hedges or retries inside make "produced" unclear: judge the plain hedge only
						workAhead = started && !produced && len(v.Stack) == 1
					}
					if n.Enter.Seq < v.Cancel0.Seq && v.Cancel1.Seq < n.Exit.Seq && workAhead && core == 0 {
						c.cov("c15.cancel_before_completion")
						if !isErr(v.OpEnd.Err, failsafe.ErrExecutionCanceled) {
							c.fail("C15.cancel", "not-canceled", fmt.Sprintf("exec %d: Cancel returned (event #%d) while the %s policy was still running the function, yet the result is (%s, %s) instead of ErrExecutionCanceled", v.ID, v.Cancel1.Seq, v.policyAt(sc, core).Kind, fmtVal(v.OpEnd.Val), fmtErr(v.OpEnd.Err)))
						}
					}
				}
			}
		}
		// agreement with the equivalent synchronous execution (no cancel, no concurrency inside)
		if v.Cancel0 == nil && v.OpEnd != nil && syncComparable(sc, v) {
			b := c.syncTwin()
			if b != nil && b.Log != nil {
				var end *Event
				for i := range b.Log.Ev {
					if b.Log.Ev[i].Kind == EvOpEnd && b.Log.Ev[i].Exec == v.ID {
						end = &b.Log.Ev[i]
					}
				}
				if end != nil {
					c.cov("c15.sync_differential")
					val := v.OpEnd.Val
					if !entryIsGet(v.Op.Entry) {
						val = nil
					}
					if !sameOutcome(val, v.OpEnd.Err, end.Val, end.Err) {
						c.fail("C15.sync-async", "differ", fmt.Sprintf("exec %d: asynchronous execution returned (%s, %s) but the same scenario executed synchronously returns (%s, %s)", v.ID, fmtVal(val), fmtErr(v.OpEnd.Err), fmtVal(end.Val), fmtErr(end.Err)))
					}
				}
			}
		}
	}
}

// syncComparable: the result does not depend on the schedule.
func syncComparable(sc *Scenario, v *ExecView) bool {
	for pos := range v.Stack {
		p := v.policyAt(sc, pos)
		switch p.Kind {
		case KHedge:
			return false
		case KRetry:
			if p.DelayKind == DelayRandom || p.Jitter != 0 || p.JitterFactor != 0 {
				return false
			}
		}
	}
	// a Timeout whose inner call ends exactly at the limit may go either way
	for _, n := range v.Nodes {
		if p := v.policyAt(sc, n.Pos); p != nil && p.Kind == KTimeout && len(n.Children) == 1 && n.Children[0].Exit != nil {
			if n.Children[0].Exit.T-n.Enter.T == p.Limit {
				return false
			}
		}
	}
	return true
}

// syncTwin runs the scenario with its execution turned synchronous, without readers or cancellation.
func (c *checkCtx) syncTwin() *RunResult {
	if c.twin == nil {
		sc := cloneScenario(c.Res.Sc)
		for ci := range sc.Clients {
			for oi := range sc.Clients[ci].Ops {
				op := &sc.Clients[ci].Ops[oi]
				if op.Kind == "exec" && entryAsync(op.Entry) {
					op.Entry -= 4
					op.Readers = nil
					op.CancelSrc, op.CancelStep, op.CancelAt = SrcNone, 0, 0
				}
			}
		}
		sc.Note = "sync twin"
		c.twin = runScenario(c.T, sc, simrtSerial())
	}
	return c.twin
}

// inChildCall reports whether the event with sequence number seq was logged while a call made by n was in progress.
func inChildCall(n *Node, seq int) bool {
	for _, ch := range n.Children {
		if ch.Enter.Seq < seq && (ch.Exit == nil || ch.Exit.Seq > seq) {
			return true
		}
	}
	return false
}
