package harness

import (
	"math"
	"time"
)

// brModel is the sequential reference machine for a circuit breaker, written
// from the builder documentation. Time-windowed results are kept with exact
// timestamps; the window is evaluated on the results that must count (age up
// to nine tenths of the period) and on those that may count (age up to the
// period), and a decision on which the two disagree is ambiguous.
type brModel struct {
	p        *PolicySpec
	state    int // 0 closed, 1 open, 2 half-open
	openedAt time.Duration
	delay    time.Duration
	// closed-state window
	ring  []bool // count based: last cap results, true = failure
	timed []brRec
	// the closed-state window is kept while open (metrics report it)
	half       []bool // half-open results (ring of capacity)
	permitted  int
	amb        bool         // the last decision was ambiguous
	oldMetrics [][]brCounts // admissible metrics of the state being left, per transition made by the last operation
	now        time.Duration
}

type brRec struct {
	at   time.Duration
	fail bool
}

func newBrModel(p *PolicySpec) *brModel { return &brModel{p: p} }

func (m *brModel) timeBased() bool { return m.p.BrKind >= 2 }

func (m *brModel) closedCap() int {
	switch m.p.BrKind {
	case 0:
		return int(m.p.FailThr)
	case 1:
		return int(m.p.FailCap)
	}
	return 0
}

func (m *brModel) failThr() int { return int(m.p.FailThr) }

// failureExecutionThreshold as configured by the builder methods
func (m *brModel) execThr() int {
	switch m.p.BrKind {
	case 2:
		return int(m.p.FailThr)
	case 3:
		return int(m.p.ExecThr)
	}
	return 0
}

func (m *brModel) succThr() int { return int(m.p.SuccThr) }
func (m *brModel) succCap() int {
	if m.p.SuccThr == 0 {
		return 0
	}
	if m.p.SuccCap != 0 {
		return int(m.p.SuccCap)
	}
	return int(m.p.SuccThr)
}

// halfCapacity is the number of trial executions permitted in the half-open state.
func (m *brModel) halfCapacity() int {
	if c := m.succCap(); c != 0 {
		return c
	}
	if e := m.execThr(); e != 0 {
		return e
	}
	if m.p.BrKind == 3 {
		return 1 // builder default capacity
	}
	if m.p.BrKind == 2 {
		return int(m.p.FailThr)
	}
	return m.closedCap()
}

type brCounts struct{ exec, fail, succ int }

func rate(n, d int) int {
	if d == 0 {
		return 0
	}
	return int(math.Round(float64(n) / float64(d) * 100))
}

// windows returns every admissible content of the closed-state window at
// instant now: results aged up to nine tenths of the period always count,
// results older than the period never do, and of those in between any suffix
// in time may count (the window's far edge lies somewhere in that band).
func (m *brModel) windows(now time.Duration) []brCounts {
	var base brCounts
	add := func(c *brCounts, fail bool) {
		c.exec++
		if fail {
			c.fail++
		} else {
			c.succ++
		}
	}
	if !m.timeBased() {
		for _, f := range m.ring {
			add(&base, f)
		}
		return []brCounts{base}
	}
	P := m.p.Period
	var maybe []brRec // oldest first (records are appended in time order)
	for _, r := range m.timed {
		age := now - r.at
		if age > P {
			continue
		}
		if age*10 <= P*9 {
			add(&base, r.fail)
		} else {
			maybe = append(maybe, r)
		}
	}
	out := []brCounts{base}
	cur := base
	for i := len(maybe) - 1; i >= 0; i-- {
		add(&cur, maybe[i].fail)
		// records sharing an instant enter together
		if i > 0 && maybe[i-1].at == maybe[i].at {
			continue
		}
		out = append(out, cur)
	}
	return out
}

func (m *brModel) window(now time.Duration) (min, max brCounts) {
	w := m.windows(now)
	return w[0], w[len(w)-1]
}

func (m *brModel) prune(now time.Duration) {
	if !m.timeBased() {
		return
	}
	k := 0
	for _, r := range m.timed {
		if now-r.at <= m.p.Period {
			m.timed[k] = r
			k++
		}
	}
	m.timed = m.timed[:k]
}

// closedTrips reports whether the closed-state threshold is met for the counts.
func (m *brModel) closedTrips(c brCounts) bool {
	if c.exec < m.execThr() {
		return false
	}
	if m.p.BrKind == 3 {
		return rate(c.fail, c.exec) >= int(m.p.RateThr)
	}
	return c.fail >= m.failThr()
}

func (m *brModel) halfCounts() brCounts {
	var c brCounts
	for _, f := range m.half {
		c.exec++
		if f {
			c.fail++
		} else {
			c.succ++
		}
	}
	return c
}

// transitions returned by model operations
type brTrans struct{ from, to int }

func (m *brModel) to(state int, now time.Duration, delay time.Duration, tr *[]brTrans) {
	if m.state == state {
		return
	}
	*tr = append(*tr, brTrans{m.state, state})
	m.oldMetrics = append(m.oldMetrics, m.metrics(now))
	switch state {
	case 0:
		m.ring, m.timed = nil, nil
	case 1:
		m.openedAt, m.delay = now, delay
	case 2:
		m.half = nil
		m.permitted = m.halfCapacity()
	}
	m.state = state
}

// record feeds one result. delay is the delay that applies if the breaker
// opens now (configured or computed by the delay function).
func (m *brModel) record(now time.Duration, fail bool, delay time.Duration) (tr []brTrans, ambiguous bool) {
	switch m.state {
	case 0:
		m.addClosed(now, fail)
		ws := m.windows(now)
		a := m.closedTrips(ws[0])
		for _, w := range ws[1:] {
			if m.closedTrips(w) != a {
				return nil, true
			}
		}
		if a {
			m.to(1, now, delay, &tr)
		}
	case 1:
		// results recorded while open are added to the statistics the breaker keeps from before it opened
		m.addClosed(now, fail)
	case 2:
		cap := m.halfCapacity()
		m.half = append(m.half, fail)
		if len(m.half) > cap {
			m.half = m.half[len(m.half)-cap:]
		}
		c := m.halfCounts()
		var succEx, failEx bool
		if st := m.succThr(); st != 0 {
			succEx = c.succ >= st
			failEx = c.fail > m.succCap()-st
		} else if m.p.BrKind == 3 {
			reached := c.exec >= m.execThr()
			failEx = reached && rate(c.fail, c.exec) >= int(m.p.RateThr)
			succEx = reached && rate(c.succ, c.exec) > 100-int(m.p.RateThr)
		} else {
			ft := m.failThr()
			fc := m.closedCap()
			if m.p.BrKind == 2 {
				fc = ft
			}
			failEx = c.fail >= ft
			succEx = c.succ > fc-ft
		}
		m.permitted++
		if succEx {
			m.to(0, now, 0, &tr)
		} else if failEx {
			m.to(1, now, delay, &tr)
		}
	}
	return tr, false
}

func (m *brModel) addClosed(now time.Duration, fail bool) {
	if m.timeBased() {
		m.timed = append(m.timed, brRec{now, fail})
		m.prune(now)
		return
	}
	m.ring = append(m.ring, fail)
	if cap := m.closedCap(); len(m.ring) > cap {
		m.ring = m.ring[len(m.ring)-cap:]
	}
}

// tryAcquire is a permit request at instant now.
func (m *brModel) tryAcquire(now time.Duration) (ok bool, tr []brTrans) {
	switch m.state {
	case 0:
		return true, nil
	case 1:
		if now-m.openedAt >= m.delay {
			m.to(2, now, 0, &tr)
			m.permitted--
			return true, tr
		}
		return false, nil
	default:
		if m.permitted > 0 {
			m.permitted--
			return true, nil
		}
		return false, nil
	}
}

func (m *brModel) remaining(now time.Duration) time.Duration {
	if m.state != 1 {
		return 0
	}
	if r := m.delay - (now - m.openedAt); r > 0 {
		return r
	}
	return 0
}

// metrics returns the admissible values of the reported counts at instant now.
func (m *brModel) metrics(now time.Duration) []brCounts {
	if m.state == 2 {
		return []brCounts{m.halfCounts()}
	}
	return m.windows(now)
}
