package harness

import (
	"errors"
	"fmt"
	"time"

	"github.com/failsafe-go/failsafe-go/circuitbreaker"
)

func init() {
	register(&PropDef{ID: "C04", Stalls: true, Level: "exploration", Gen: genC04, Check: checkC04, Valid: validC04})
}

func genC04(r *Rnd, t Tier) *Case {
	unit := ms
	sc := &Scenario{Family: "c04"}
	br := PolicySpec{Kind: KBreaker, BrKind: pick(r, 0, 0, 1, 1, 2, 3)}
	switch br.BrKind {
	case 0:
		br.FailThr = uint(r.Range(1, 3))
	case 1:
		br.FailCap = uint(r.Range(2, 4))
		br.FailThr = uint(r.Range(1, int(br.FailCap)))
	case 2:
		br.FailThr = uint(r.Range(1, 3))
		br.Period = time.Duration(r.Range(5, 20)) * 10 * unit
	case 3:
		br.RateThr = uint(pick(r, 50, 51, 100, 34))
		br.ExecThr = uint(r.Range(0, 4))
		br.Period = time.Duration(r.Range(5, 20)) * 10 * unit
	}
	if r.P(0.5) {
		br.SuccThr = uint(r.Range(1, 3))
		if r.P(0.5) {
			br.SuccCap = br.SuccThr + uint(r.Range(0, 2))
		}
	}
	br.Delay = time.Duration(r.Range(5, 40)) * unit
	sleepBase := br.Delay
	if r.P(0.06) {
		br.Delay = foreverDelay(r)
	} else if r.P(0.2) {
		// a computed delay: the function's value when an execution opens the breaker and the function returns one,
		// the configured delay otherwise (manual Open, or the function returning -1)
		br.DelayFn = []D{time.Duration(r.Range(5, 40)) * unit, -1, time.Duration(r.Range(5, 40)) * unit}
		sleepBase = br.DelayFn[0]
	}
	manualOpen := r.P(0.15)
	sc.Policies = []PolicySpec{br}
	nst := r.Range(1, 3)
	for s := 0; s < nst; s++ {
		stack := []int{0}
		switch r.Intn(5) {
		case 1:
			p := genRetry(r, unit)
			p.MaxRetries = pick(r, 1, 2, 3)
			p.Abort = Cond{}
			sc.Policies = append(sc.Policies, p)
			stack = append([]int{len(sc.Policies) - 1}, stack...)
		case 2:
			sc.Policies = append(sc.Policies, PolicySpec{Kind: KTimeout, Limit: time.Duration(r.Range(3, 25)) * unit})
			if r.Bool() {
				stack = append([]int{len(sc.Policies) - 1}, stack...)
			} else {
				stack = append(stack, len(sc.Policies)-1)
			}
		case 3:
			sc.Policies = append(sc.Policies, genFallback(r, unit))
			stack = append([]int{len(sc.Policies) - 1}, stack...)
		}
		sc.Stacks = append(sc.Stacks, stack)
	}
	nclients := r.Range(2, 4)
	if t.Thorough {
		nclients = r.Range(2, 6)
	}
	for ci := 0; ci < nclients; ci++ {
		var ops []Op
		for i, n := 0, r.Range(1, 4); i < n; i++ {
			if r.P(0.4) {
				d := pick(r, time.Duration(r.Range(1, 30))*unit, sleepBase, sleepBase-1, sleepBase+1, sleepBase*2)
				ops = append(ops, Op{Kind: "sleep", Dur: d})
			}
			s := genScript(r, unit, r.Range(1, 3), pick(r, 0.3, 0.6, 0.9))
			for j := range s.Outcomes {
				s.Outcomes[j].Dur = time.Duration(r.Range(0, 25)) * unit
				s.Outcomes[j].Coop = pick(r, CoopReturn, CoopResult, CoopIgnore)
			}
			sc.Scripts = append(sc.Scripts, s)
			op := Op{Kind: "exec", Stack: r.Intn(nst), Script: len(sc.Scripts) - 1, Entry: pick(r, EnGetExec, EnRunExec, EnGetExecAsync, EnGet, EnGetAsync), Ctx: pick(r, CtxNone, CtxBackground)}
			if r.P(0.15) {
				op.Ctx = CtxCancel
				op.CancelSrc = SrcCtxCancel
				op.CancelAt = time.Duration(r.Range(0, 20)) * unit
			}
			ops = append(ops, op)
			if manualOpen && r.P(0.3) {
				// opened by hand while executions are in flight: no execution is attached, the configured delay applies
				ops = append(ops, Op{Kind: "br.open", Pol: 0})
			}
		}
		sc.Clients = append(sc.Clients, Client{Ops: ops})
	}
	terminating(sc)
	return &Case{Sc: sc}
}

func validC04(sc *Scenario) bool {
	return len(sc.Policies) > 0 && sc.Policies[0].Kind == KBreaker
}

func checkC04(c *checkCtx) {
	if !checkProgress(c, "C04.") {
		return
	}
	sc := c.Res.Sc
	p := &sc.Policies[0]
	mdl := newBrModel(p)
	capacity := mdl.halfCapacity()
	ev := c.Res.Log.Ev
	// transition events of the breaker, in log order (they are emitted under the breaker's lock)
	type trans struct {
		seq      int
		from, to int
		t        time.Duration
	}
	var trs []trans
	for i := range ev {
		e := &ev[i]
		if e.Kind == EvListener && e.Pos == 0 && e.L == LBrStateChanged {
			trs = append(trs, trans{e.Seq, int(e.A), int(e.B), e.T})
		}
	}
	// all calls through the breaker
	type call struct {
		v *ExecView
		n *Node
	}
	var calls []call
	for _, v := range c.Views {
		for _, n := range v.Nodes {
			if n.Pos < len(v.Stack) && v.Stack[n.Pos] == 0 {
				calls = append(calls, call{v, n})
			}
		}
	}
	// (a) open admits nothing
	for k, tr := range trs {
		if tr.to != 1 {
			continue
		}
		end := 1 << 30
		if k+1 < len(trs) {
			end = trs[k+1].seq
		}
		c.cov("c04.open_epochs")
		for _, cl := range calls {
			n := cl.n
			if n.Enter.Seq <= tr.seq || n.Exit == nil || n.Exit.Seq >= end {
				continue
			}
			// entered after the breaker opened and finished before it changed state again
			c.cov("c04.calls_while_open")
			if len(n.Children) != 0 {
				c.fail("C04.open-admits", "admitted", fmt.Sprintf("exec %d entered the breaker after it opened (event #%d, t=%v) and before any further state change, yet the layer inside it was invoked", cl.v.ID, tr.seq, tr.t))
			} else if !(n.Exit.Val == nil && errors.Is(n.Exit.Err, circuitbreaker.ErrOpen)) {
				c.fail("C04.open-admits", "error", fmt.Sprintf("exec %d was refused by the open breaker with %s instead of ErrOpen", cl.v.ID, outcomeStr(n.Exit)))
			}
		}
	}
	// (a2) the breaker leaves the open state for the half-open state only once its delay has elapsed.
	// The instant it opened lies at or after the last thing the opening task logged before the
	// listener ran, and the instant it half-opened at or before the half-open listener's log time
	// (a stalled task only logs later), so the difference bounds the elapsed time from above.
	manual := false
	for i := range ev {
		if ev[i].Kind == EvStandalone && ev[i].Pos == 0 && ev[i].Str != "br.open" {
			manual = true
		}
	}
	for k, tr := range trs {
		if manual || tr.to != 2 || tr.from != 1 || k == 0 || trs[k-1].to != 1 {
			continue
		}
		op := trs[k-1]
		opened := op.t
		// the delay of this open state: what the delay function returned to the task that opened the breaker
		// (it is consulted with the execution being recorded, just before the listeners run), else the configured one
		delay, what := p.Delay, "configured"
		for j := op.seq - 1; j >= 0; j-- {
			if ev[j].Task != ev[op.seq].Task {
				continue
			}
			if ev[j].Kind == EvDelayFn && ev[j].Pos == 0 {
				if ev[j].A != -1 && what == "configured" {
					delay, what = time.Duration(ev[j].A), "computed"
					c.cov("c04.computed_delay")
				}
				continue
			}
			if !(ev[j].Kind == EvListener && ev[j].Pos == 0 && (ev[j].L == LBrStateChanged || ev[j].L == LBrOpen)) {
				opened = ev[j].T
				break
			}
		}
		c.cov("c04.halfopen_after_delay_checked")
		if el := tr.t - opened; el < delay {
			c.fail("C04.open-admits", "early-halfopen", fmt.Sprintf("the breaker opened at t>=%v (event #%d) and half-opened at t<=%v (event #%d): at most %v of its %s %v delay had elapsed", opened, op.seq, tr.t, tr.seq, el, what, delay))
		}
	}
	// (b) half-open: concurrently running admitted trials never exceed the capacity
	for k, tr := range trs {
		if tr.to != 2 {
			continue
		}
		end := 1 << 30
		if k+1 < len(trs) {
			end = trs[k+1].seq
		}
		// premise: nothing admitted earlier is still in flight
		premise := true
		for _, cl := range calls {
			n := cl.n
			if len(n.Children) == 0 {
				continue
			}
			ch := n.Children[0]
			if ch.Enter.Seq < tr.seq && (n.Exit == nil || n.Exit.Seq > tr.seq) {
				premise = false
			}
		}
		if !premise {
			c.cov("c04.halfopen_excluded_by_premise")
			continue
		}
		c.cov("c04.halfopen_epochs")
		// trials admitted in this epoch: from admission (inner call entered) to the breaker call returning
		type iv struct{ a, b int }
		var ivs []iv
		for _, cl := range calls {
			n := cl.n
			if len(n.Children) == 0 {
				continue
			}
			ch := n.Children[0]
			if ch.Enter.Seq > tr.seq && ch.Enter.Seq < end {
				b := 1 << 30
				if ch.Exit != nil {
					b = ch.Exit.Seq // until the trial's own result exists; recording follows at once
				}
				if b > end {
					b = end
				}
				ivs = append(ivs, iv{ch.Enter.Seq, b})
			}
		}
		worst := 0
		for _, x := range ivs {
			cnt := 0
			for _, y := range ivs {
				if y.a <= x.a && x.a < y.b {
					cnt++
				}
			}
			if cnt > worst {
				worst = cnt
			}
		}
		if worst > capacity {
			c.fail("C04.halfopen-capacity", "exceeded", fmt.Sprintf("%d executions admitted in one half-open state (since event #%d) ran concurrently; the trial capacity is %d", worst, tr.seq, capacity))
		}
		if worst == capacity {
			c.cov("c04.halfopen_capacity_reached")
		}
	}
	// (c) every admitted trial gave its permit back: probes after quiescence
	if end, ok := c.Res.BreakerEnd[0]; ok && end[0] == 2 {
		// premise for the last half-open epoch
		last := -1
		for k, tr := range trs {
			if tr.to == 2 {
				last = k
			}
		}
		premise := last >= 0
		if premise {
			tr := trs[last]
			for _, cl := range calls {
				n := cl.n
				if len(n.Children) > 0 && n.Children[0].Enter.Seq < tr.seq && (n.Exit == nil || n.Exit.Seq > tr.seq) {
					premise = false
				}
			}
		}
		if premise {
			c.cov("c04.permit_probe_checked")
			if end[1] != capacity {
				c.fail("C04.permits-returned", fmt.Sprintf("free=%d", end[1]-capacity), fmt.Sprintf("after every execution finished the half-open breaker grants %d permits; its trial capacity is %d, so %d admitted trial(s) did not give their permit back exactly once", end[1], capacity, capacity-end[1]))
			}
		}
	}
}
