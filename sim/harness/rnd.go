package harness

import (
	"time"

	"dsim/simrt"
)

// Rnd is the generator-side PRNG (splitmix64). Everything a run does is derived
// from one seed: the scenario from Rnd(seed), the schedule from simrt's own
// stream seeded with Mix(seed, 1).
type Rnd struct{ s uint64 }

func NewRnd(seed uint64) *Rnd { return &Rnd{s: seed} }

func (r *Rnd) U64() uint64 {
	r.s += 0x9e3779b97f4a7c15
	z := r.s
	z = (z ^ (z >> 30)) * 0xbf58476d1ce4e5b9
	z = (z ^ (z >> 27)) * 0x94d049bb133111eb
	return z ^ (z >> 31)
}

func (r *Rnd) Intn(n int) int {
	if n <= 1 {
		return 0
	}
	return int(r.U64() % uint64(n))
}

func (r *Rnd) Range(lo, hi int) int { return lo + r.Intn(hi-lo+1) }
func (r *Rnd) Bool() bool           { return r.U64()&1 == 1 }
func (r *Rnd) P(p float64) bool     { return float64(r.U64()>>11)/float64(1<<53) < p }
func (r *Rnd) Float() float64       { return float64(r.U64()>>11) / float64(1<<53) }

func pick[T any](r *Rnd, xs ...T) T { return xs[r.Intn(len(xs))] }

// Dur picks a duration from a boundary-heavy distribution around base.
func (r *Rnd) DurAround(base time.Duration) time.Duration {
	switch r.Intn(8) {
	case 0:
		return base - 1
	case 1:
		return base
	case 2:
		return base + 1
	case 3:
		return base / 2
	case 4:
		return base * 2
	case 5:
		return base / 10
	case 6:
		return base * 10
	default:
		return time.Duration(r.Float() * 2 * float64(base))
	}
}

var timeUnits = []time.Duration{time.Microsecond, time.Millisecond, 10 * time.Millisecond, time.Second, time.Minute}

func (r *Rnd) Unit() time.Duration { return timeUnits[r.Intn(len(timeUnits))] }

// swarmConfig picks a scheduling strategy for a run.
func swarmConfig(r *Rnd, seed uint64, estLen int) simrt.Config {
	c := simrt.Config{Seed: simrt.Mix(seed, 1)}
	switch r.Intn(10) {
	case 0:
		c.Strategy = simrt.StratSerial
	case 1, 2, 3:
		c.Strategy = simrt.StratRandom
	case 4, 5, 6:
		c.Strategy = simrt.StratPCT
		c.PCTDepth = r.Range(1, 3)
		c.PCTLen = estLen
	default:
		c.Strategy = simrt.StratSticky
		c.StickyP = pick(r, 0.5, 0.8, 0.95)
	}
	if r.P(0.5) {
		c.RandMode = 1
	}
	return c
}

var stratNames = []string{"serial", "random", "pct", "sticky"}

func simrtSerial() simrt.Config { return simrt.Config{Seed: 1, Strategy: simrt.StratSerial} }
