package harness

import (
	"fmt"
	"time"
)

func init() {
	register(&PropDef{ID: "C03", Level: "exploration", Gen: genC03, Check: checkC03, Valid: validC03})
}

func genC03(r *Rnd, t Tier) *Case {
	unit := pick(r, time.Millisecond, time.Millisecond, 10*time.Millisecond, time.Second)
	sc := &Scenario{Family: "c03"}
	p := PolicySpec{Kind: KBreaker, BrKind: r.Intn(4)}
	switch p.BrKind {
	case 0:
		p.FailThr = uint(r.Range(1, 6))
	case 1:
		p.FailCap = uint(r.Range(1, 12))
		p.FailThr = uint(r.Range(1, int(p.FailCap)))
	case 2:
		p.FailThr = uint(r.Range(1, 6))
		p.Period = time.Duration(r.Range(1, 20)) * 10 * unit
	case 3:
		p.RateThr = uint(pick(r, 1, 20, 33, 50, 51, 67, 100))
		p.ExecThr = uint(r.Range(0, 8))
		switch r.Intn(3) {
		case 0:
			p.RateThr = uint(r.Range(1, 100))
		case 1:
			// a threshold that some number of failures among ExecThr executions reaches exactly (after rounding)
			p.ExecThr = uint(pick(r, 2, 3, 4, 6, 7, 8, 8))
			k := r.Range(1, int(p.ExecThr))
			p.RateThr = uint(rate(k, int(p.ExecThr)))
		}
		p.Period = time.Duration(r.Range(1, 20)) * 10 * unit
	}
	if r.P(0.5) {
		p.SuccThr = uint(r.Range(1, 5))
		if r.P(0.6) {
			p.SuccCap = p.SuccThr + uint(r.Range(0, 6))
		}
	}
	p.Delay = time.Duration(r.Range(1, 40)) * unit
	if r.P(0.25) {
		p.DelayFn = []D{time.Duration(r.Range(1, 30)) * unit, -1, time.Duration(r.Range(1, 30)) * unit}
	}
	if r.P(0.3) {
		p.Handle = genCond(r, false)
	}
	sc.Policies = []PolicySpec{p}
	sc.Stacks = [][]int{{0}}
	n := r.Range(5, 30)
	if t.Thorough {
		n = r.Range(5, 60)
	}
	var ops []Op
	slice := time.Duration(0)
	if p.Period > 0 {
		slice = p.Period / 10
	}
	for i := 0; i < n; i++ {
		switch r.Intn(16) {
		case 0, 1, 2, 3:
			ops = append(ops, Op{Kind: "br.failure"})
		case 4, 5, 6:
			ops = append(ops, Op{Kind: "br.success"})
		case 7, 8:
			ops = append(ops, Op{Kind: "br.try"})
		case 9:
			ops = append(ops, Op{Kind: pick(r, "br.result", "br.error"), Arg: pick(r, 0, 1, 2, 3)})
			if ops[len(ops)-1].Kind == "br.error" {
				ops[len(ops)-1].Arg = pick(r, EA, EB, EC, EValErr, EWrapA)
			}
		case 10:
			ops = append(ops, Op{Kind: pick(r, "br.open", "br.halfopen", "br.close")})
		case 11:
			// an execution through the breaker (exercises the delay function and the executor path)
			sc.Scripts = append(sc.Scripts, Script{Outcomes: []Outcome{genOutcome(r, unit, 0.6)}})
			sc.Scripts[len(sc.Scripts)-1].Outcomes[0].Dur = 0
			ops = append(ops, Op{Kind: "exec", Script: len(sc.Scripts) - 1, Entry: pick(r, EnGet, EnGetExec, EnRun)})
		default:
			// clock advance, boundary biased
			var d time.Duration
			switch r.Intn(12) {
			case 0:
				d = 0
			case 1:
				d = 1
			case 2:
				d = p.Delay - 1
			case 3:
				d = p.Delay
			case 4:
				d = p.Delay + 1
			case 5:
				d = slice - 1
			case 6:
				d = slice
			case 7:
				d = slice + 1
			case 8:
				d = p.Period*9/10 + time.Duration(r.Range(-1, 1))
			case 9:
				d = p.Period + time.Duration(r.Range(-1, 1))
			case 10:
				d = time.Duration(r.Range(1, 5)) * 1000 * unit
			default:
				d = time.Duration(r.Range(1, 30)) * unit
			}
			if r.P(0.2) && slice > 0 {
				d = -slice // marker: advance to the next slice boundary (resolved at run time)
			}
			if d < 0 && d != -slice {
				d = 0
			}
			ops = append(ops, Op{Kind: "sleep", Dur: d})
		}
		ops = append(ops, Op{Kind: "br.observe"})
	}
	if len(sc.Scripts) == 0 {
		sc.Scripts = []Script{{Outcomes: []Outcome{{}}}}
	}
	sc.Clients = []Client{{Ops: ops}}
	sc.NoProbes = false
	if r.P(0.05) {
		sc.Policies[0].Delay = foreverDelay(r) // the clock advances stay relative to the small delay drawn above
	}
	return &Case{Sc: sc, Cfg: simrtSerial()}
}

func validC03(sc *Scenario) bool {
	return len(sc.Clients) == 1 && len(sc.Policies) >= 1 && sc.Policies[0].Kind == KBreaker
}

var brStateNames = []string{"closed", "open", "half-open"}

func checkC03(c *checkCtx) {
	if !checkProgress(c, "C03.") {
		return
	}
	sc := c.Res.Sc
	p := &sc.Policies[0]
	m := newBrModel(p)
	prevBeforeOpen := 0
	ev := c.Res.Log.Ev
	fail := func(id, sig, msg string, at *Event) {
		c.fail("C03."+id, sig, fmt.Sprintf("%s (at event %s; model: state=%s)", msg, at.String(), brStateNames[m.state]))
	}
	// collect the listener transitions between two sequence numbers
	transBetween := func(a, b int) (out []brTrans, evs []*Event) {
		for i := a + 1; i < b && i < len(ev); i++ {
			e := &ev[i]
			if e.Kind == EvListener && e.Pos == 0 && e.L == LBrStateChanged {
				out = append(out, brTrans{int(e.A), int(e.B)})
				evs = append(evs, e)
			}
		}
		return
	}
	delayBetween := func(a, b int) time.Duration {
		d := p.Delay
		for i := a + 1; i < b && i < len(ev); i++ {
			e := &ev[i]
			if e.Kind == EvDelayFn && e.Pos == 0 && e.A != -1 {
				d = time.Duration(e.A)
			}
		}
		return d
	}
	sameTrans := func(a, b []brTrans) bool {
		if len(a) != len(b) {
			return false
		}
		for i := range a {
			if a[i] != b[i] {
				return false
			}
		}
		return true
	}
	prevBeforeOpenAtEvent := 0
	applyTrans := func(want []brTrans, from, to int, what string, at *Event, amb bool) bool {
		defer func() { m.oldMetrics = nil; prevBeforeOpenAtEvent = prevBeforeOpen }()
		got, _ := transBetween(from, to)
		if amb {
			c.cov("ambiguous.breaker_window")
			// adopt the implementation's decision
			for _, tr := range got {
				var dummy []brTrans
				if tr.to == 1 {
					prevBeforeOpen = m.state
				}
				m.to(tr.to, at.T, delayBetween(from, to), &dummy)
			}
			return true
		}
		if !sameTrans(got, want) {
			fail("transition", "mismatch", fmt.Sprintf("%s: state changes reported %v but the documented machine makes %v", what, got, want), at)
			return false
		}
		// the event's metrics are those of the state that was left
		_, evs := transBetween(from, to)
		for i, e := range evs {
			if i >= len(m.oldMetrics) || (want[i].from == 1 && prevBeforeOpenAtEvent == 2) {
				continue
			}
			okm := false
			for _, w := range m.oldMetrics[i] {
				if w.exec == e.Attempts && w.fail == e.Executions && w.succ == e.Retries {
					okm = true
				}
			}
			c.cov("c03.event_metrics_checked")
			if len(e.Aux) == 2 {
				if e.Hedges != rate(e.Executions, e.Attempts) || e.Aux[0] != rate(e.Retries, e.Attempts) {
					fail("event-metrics", "rates", fmt.Sprintf("%s: the state change event reports failureRate=%d successRate=%d for failures=%d successes=%d executions=%d", what, e.Hedges, e.Aux[0], e.Executions, e.Retries, e.Attempts), at)
					return false
				}
				if e.Aux[1] == 1 {
					fail("event-metrics", "context", what+": the state change event has no context", at)
					return false
				}
			}
			if !okm {
				fail("event-metrics", "counts", fmt.Sprintf("%s: the %s->%s event carries metrics executions=%d failures=%d successes=%d but the state being left held one of %v", what, brStateNames[want[i].from], brStateNames[want[i].to], e.Attempts, e.Executions, e.Retries, m.oldMetrics[i]), at)
				return false
			}
		}
		return true
	}
	invoke := -1
	var stop bool
	execEnter, admitSeq, childExit := (*Event)(nil), -1, (*Event)(nil)
	for i := 0; i < len(ev) && !stop && len(c.Viol) == 0; i++ {
		e := &ev[i]
		switch {
		case e.Kind == EvProbeEnter && e.Pos == 0:
			execEnter, admitSeq, childExit = e, -1, nil
		case e.Kind == EvProbeEnter && e.Pos == 1 && execEnter != nil:
			admitSeq = e.Seq
			c.cov("c03.ops")
			ok, tr := m.tryAcquire(e.T)
			if !ok {
				fail("admission", "exec-admitted", fmt.Sprintf("an execution was admitted but the documented machine refuses it (remaining delay %v, permits %d)", m.remaining(e.T), m.permitted), e)
				stop = true
				break
			}
			if !applyTrans(tr, execEnter.Seq, e.Seq, "execution admission", e, false) {
				stop = true
			}
		case e.Kind == EvProbeExit && e.Pos == 1 && execEnter != nil:
			childExit = e
		case e.Kind == EvProbeExit && e.Pos == 0 && execEnter != nil:
			if admitSeq < 0 {
				c.cov("c03.ops")
				ok, _ := m.tryAcquire(execEnter.T)
				if ok {
					fail("admission", "exec-refused", fmt.Sprintf("an execution was refused with %s but the documented machine admits it", outcomeStr(e)), e)
					stop = true
				}
			} else if childExit != nil {
				f := isFailure(p.Handle, childExit.Val, childExit.Err)
				if f == Either {
					c.cov("ambiguous.classify")
					stop = true
					break
				}
				st := m.state
				tr, amb := m.record(childExit.T, f == Yes, delayBetween(childExit.Seq, e.Seq))
				for _, x := range tr {
					if x.to == 1 {
						prevBeforeOpen = st
					}
				}
				if !applyTrans(tr, childExit.Seq, e.Seq, "recording an execution result", e, amb) {
					stop = true
				}
			}
			execEnter = nil
		case e.Kind == EvStandalone && e.L == 0:
			invoke = e.Seq
		case e.Kind == EvStandalone && e.L == 1 && e.Str != "br.observe":
			now := e.T
			delay := p.Delay
			c.cov("c03.ops")
			switch e.Str {
			case "br.try":
				before := m.state
				ok, tr := m.tryAcquire(now)
				if (e.A == 1) != ok {
					fail("admission", "try", fmt.Sprintf("TryAcquirePermit returned %v but the documented machine says %v (remaining delay %v, permits %d)", e.A == 1, ok, m.remaining(now), m.permitted), e)
					stop = true
					break
				}
				if before == 1 && ok {
					c.cov("c03.half_open_after_delay")
				}
				if before == 1 && !ok && m.remaining(now) <= 1 {
					c.cov("c03.refused_one_ns_before_delay_end")
				}
				if !applyTrans(tr, invoke, e.Seq, "TryAcquirePermit", e, false) {
					stop = true
				}
			case "br.success", "br.failure", "br.result", "br.error":
				failed := e.Str == "br.failure"
				if e.Str == "br.result" || e.Str == "br.error" {
					op := findOpForStandalone(sc, ev, e)
					var f int
					if e.Str == "br.result" {
						f = isFailure(p.Handle, op.Arg, nil)
					} else {
						f = isFailure(p.Handle, nil, errTable[op.Arg])
					}
					if f == Either {
						c.cov("ambiguous.classify")
						stop = true
						break
					}
					failed = f == Yes
				}
				st := m.state
				tr, amb := m.record(now, failed, delay)
				for _, x := range tr {
					if x.to == 1 {
						prevBeforeOpen = st
					}
				}
				if !applyTrans(tr, invoke, e.Seq, e.Str, e, amb) {
					stop = true
				}
			case "br.open", "br.halfopen", "br.close":
				var tr []brTrans
				target := map[string]int{"br.open": 1, "br.halfopen": 2, "br.close": 0}[e.Str]
				if target == 1 && m.state != 1 {
					prevBeforeOpen = m.state
				}
				m.to(target, now, delay, &tr)
				if !applyTrans(tr, invoke, e.Seq, e.Str, e, false) {
					stop = true
				}
			}
		case e.Kind == EvStandalone && e.L == 1 && e.Str == "br.observe":
			now := e.T
			c.cov("c03.observations")
			if int(e.A) != m.state {
				fail("state", "state", fmt.Sprintf("State() is %s but the documented machine is %s", brStateNames[e.A], brStateNames[m.state]), e)
				stop = true
				break
			}
			if len(e.Aux) > 1 && e.Aux[1] == 1 {
				fail("state", "predicates", fmt.Sprintf("IsClosed/IsOpen/IsHalfOpen disagree with State() = %s read at the same instant", brStateNames[e.A]), e)
			}
			if rem := m.remaining(now); time.Duration(e.B) != rem {
				fail("remaining", "delay", fmt.Sprintf("RemainingDelay() is %v but %v of the delay %v remain", time.Duration(e.B), rem, m.delay), e)
			}
			exec, fails, succ, frate, srate := e.Attempts, e.Executions, e.Retries, e.Hedges, e.Aux[0]
			if exec != fails+succ {
				fail("metrics", "sum", fmt.Sprintf("Metrics: executions=%d but failures+successes=%d", exec, fails+succ), e)
			}
			if frate != rate(fails, exec) || srate != rate(succ, exec) {
				fail("metrics", "rate", fmt.Sprintf("Metrics: failureRate=%d successRate=%d for failures=%d successes=%d executions=%d", frate, srate, fails, succ, exec), e)
			}
			if m.state == 1 && prevBeforeOpen == 2 {
				break // documented only for an open state entered from closed
			}
			ws := m.metrics(now)
			okm := false
			for _, w := range ws {
				if w.exec == exec && w.fail == fails && w.succ == succ {
					okm = true
				}
			}
			if !okm {
				fail("metrics", "counts", fmt.Sprintf("Metrics: executions=%d failures=%d successes=%d but the documented window holds one of %v (executions, failures, successes)", exec, fails, succ, ws), e)
			}
			if len(ws) > 1 {
				c.cov("ambiguous.breaker_metrics")
			}
		}
	}
	if stop || len(c.Viol) > 0 {
		return
	}
	// executions through the breaker: admission and recording
	// (handled in event order above only for standalone calls; executions are replayed here in one pass together)
}

func findOpForStandalone(sc *Scenario, ev []Event, e *Event) *Op {
	// the k-th standalone return event of the client corresponds to its k-th standalone op
	k := 0
	for i := range ev {
		x := &ev[i]
		if x.Kind == EvStandalone && x.L == 1 && x.Str != "br.observe" {
			if x.Seq == e.Seq {
				break
			}
			k++
		}
	}
	j := 0
	for oi := range sc.Clients[0].Ops {
		op := &sc.Clients[0].Ops[oi]
		if op.Kind == "sleep" || op.Kind == "exec" || op.Kind == "br.observe" {
			continue
		}
		if j == k {
			return op
		}
		j++
	}
	return &Op{}
}
