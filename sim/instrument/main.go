// Command instrument copies a failsafe-go tree to a scratch directory and
// rewrites the non-test library files so that every synchronisation operation
// goes through dsim/simrt (DESIGN §2.2). /repo itself is never modified.
//
// usage: instrument <srcdir> <dstdir>
package main

import (
	"bytes"
	"encoding/json"
	"fmt"
	"go/ast"
	"go/format"
	"go/parser"
	"go/printer"
	"go/token"
	"io"
	"os"
	"path/filepath"
	"sort"
	"strconv"
	"strings"
)

type shim struct {
	alias string
	path  string
	names map[string]bool
}

func set(names ...string) map[string]bool {
	m := map[string]bool{}
	for _, n := range names {
		m[n] = true
	}
	return m
}

var shims = map[string]*shim{
	"sync": {"simsync", "dsim/shim/sync", set("Mutex", "RWMutex", "Once", "OnceFunc", "OnceValue", "OnceValues", "WaitGroup", "Cond", "NewCond")},
	"sync/atomic": {"simatomic", "dsim/shim/atomic", set(
		"Bool", "Int32", "Int64", "Uint32", "Uint64", "Uintptr", "Pointer",
		"AddInt32", "AddInt64", "AddUint32", "AddUint64",
		"LoadInt32", "LoadInt64", "LoadUint32", "LoadUint64", "LoadPointer",
		"StoreInt32", "StoreInt64", "StoreUint32", "StoreUint64", "StorePointer",
		"SwapInt32", "SwapInt64", "SwapUint32", "SwapUint64",
		"CompareAndSwapInt32", "CompareAndSwapInt64", "CompareAndSwapUint32", "CompareAndSwapUint64", "CompareAndSwapPointer")},
	"time":         {"simtime", "dsim/shim/time", set("NewTimer", "AfterFunc", "After", "Sleep")},
	"math/rand":    {"simrand", "dsim/shim/rand", set("Float64", "Float32", "Intn", "Int63n", "Int31n", "Int63", "Int")},
	"math/rand/v2": {"simrand", "dsim/shim/rand", set("Float64", "Float32")},
	"context":      {"simctx", "dsim/shim/context", set("WithCancel", "WithCancelCause", "WithTimeout", "WithDeadline", "WithTimeoutCause", "WithDeadlineCause", "AfterFunc")},
}

type stats struct {
	Files        int            `json:"files"`
	Selects      int            `json:"selects"`
	GoStmts      int            `json:"go_stmts"`
	ChanOps      int            `json:"chan_ops"`
	Closes       int            `json:"closes"`
	Selectors    map[string]int `json:"shimmed_selectors"`
	Uncontrolled []string       `json:"uncontrolled"`
}

var st = stats{Selectors: map[string]int{}}

func main() {
	if len(os.Args) != 3 {
		fmt.Fprintln(os.Stderr, "usage: instrument <src> <dst>")
		os.Exit(2)
	}
	src, dst := os.Args[1], os.Args[2]
	keepTests := os.Getenv("INSTRUMENT_KEEP_TESTS") == "1" // self-test: run the repository's own suite on the instrumented copy
	err := filepath.Walk(src, func(p string, info os.FileInfo, err error) error {
		if err != nil {
			return err
		}
		rel, _ := filepath.Rel(src, p)
		if info.IsDir() {
			if info.Name() == ".git" || rel == "examples" || (rel == "test" && !keepTests) {
				return filepath.SkipDir
			}
			return os.MkdirAll(filepath.Join(dst, rel), 0o755)
		}
		if !info.Mode().IsRegular() {
			return nil
		}
		out := filepath.Join(dst, rel)
		if strings.HasSuffix(p, ".go") && !strings.HasSuffix(p, "_test.go") &&
			!strings.HasPrefix(rel, "internal/testutil") && !strings.HasPrefix(rel, "internal/policytesting") {
			return instrumentFile(p, rel, out)
		}
		if strings.HasSuffix(p, "_test.go") && !keepTests {
			return nil
		}
		return copyFile(p, out)
	})
	if err != nil {
		fmt.Fprintln(os.Stderr, "instrument:", err)
		os.Exit(2)
	}
	sort.Strings(st.Uncontrolled)
	b, _ := json.MarshalIndent(st, "", " ")
	os.WriteFile(filepath.Join(dst, "INSTRUMENT.json"), b, 0o644)
	fmt.Println(string(b))
}

func copyFile(a, b string) error {
	in, err := os.Open(a)
	if err != nil {
		return err
	}
	defer in.Close()
	out, err := os.Create(b)
	if err != nil {
		return err
	}
	defer out.Close()
	_, err = io.Copy(out, in)
	return err
}

type fileCtx struct {
	fset    *token.FileSet
	rel     string
	used    map[string]bool // shim aliases used
	simrt   bool
	counter int
}

func instrumentFile(path, rel, out string) error {
	fset := token.NewFileSet()
	f, err := parser.ParseFile(fset, path, nil, parser.ParseComments)
	if err != nil {
		// leave unparsable files alone: the build will report them
		return copyFile(path, out)
	}
	st.Files++
	fc := &fileCtx{fset: fset, rel: rel, used: map[string]bool{}}

	// keep only comments before the package clause (build constraints)
	var keep []*ast.CommentGroup
	for _, cg := range f.Comments {
		if cg.End() < f.Package {
			keep = append(keep, cg)
		}
	}
	f.Comments = keep
	f.Doc = nil
	stripDocs(f)

	// imports: local name -> path
	imports := map[string]string{}
	for _, is := range f.Imports {
		p, _ := strconv.Unquote(is.Path.Value)
		name := p[strings.LastIndex(p, "/")+1:]
		if p == "math/rand/v2" {
			name = "rand"
		}
		if is.Name != nil {
			name = is.Name.Name
		}
		imports[name] = p
	}

	// R1: selector substitution
	ast.Inspect(f, func(n ast.Node) bool {
		se, ok := n.(*ast.SelectorExpr)
		if !ok {
			return true
		}
		id, ok := se.X.(*ast.Ident)
		if !ok || id.Obj != nil {
			return true
		}
		p, ok := imports[id.Name]
		if !ok {
			return true
		}
		sh := shims[p]
		if sh == nil || !sh.names[se.Sel.Name] {
			return true
		}
		st.Selectors[p+"."+se.Sel.Name]++
		id.Name = sh.alias
		fc.used[sh.alias+" "+sh.path] = true
		return true
	})

	// statement-level rewrites, innermost lists first
	var lists []ast.Node
	ast.Inspect(f, func(n ast.Node) bool {
		switch n.(type) {
		case *ast.BlockStmt, *ast.CaseClause, *ast.CommClause:
			lists = append(lists, n)
		}
		return true
	})
	for i := len(lists) - 1; i >= 0; i-- {
		switch b := lists[i].(type) {
		case *ast.BlockStmt:
			b.List = fc.rewriteList(b.List)
		case *ast.CaseClause:
			b.Body = fc.rewriteList(b.Body)
		case *ast.CommClause:
			b.Body = fc.rewriteList(b.Body)
		}
	}

	// report channel operations we could not put under control
	handled := map[ast.Node]bool{}
	ast.Inspect(f, func(n ast.Node) bool {
		if ce, ok := n.(*ast.CallExpr); ok {
			if se, ok := ce.Fun.(*ast.SelectorExpr); ok {
				if id, ok := se.X.(*ast.Ident); ok && id.Name == "simrt" {
					_ = handled
				}
			}
		}
		if rs, ok := n.(*ast.RangeStmt); ok {
			_ = rs // range over channel cannot be recognised without types; ignored
		}
		return true
	})

	// imports: add shims, neutralise originals that became unused
	usedPkgs := map[string]bool{}
	ast.Inspect(f, func(n ast.Node) bool {
		if se, ok := n.(*ast.SelectorExpr); ok {
			if id, ok := se.X.(*ast.Ident); ok && id.Obj == nil {
				usedPkgs[id.Name] = true
			}
		}
		return true
	})
	for _, is := range f.Imports {
		p, _ := strconv.Unquote(is.Path.Value)
		name := p[strings.LastIndex(p, "/")+1:]
		if p == "math/rand/v2" {
			name = "rand"
		}
		if is.Name != nil {
			name = is.Name.Name
		}
		if shims[p] != nil && !usedPkgs[name] && name != "_" && name != "." {
			is.Name = ast.NewIdent("_")
		}
	}
	var add []string
	for k := range fc.used {
		add = append(add, k)
	}
	if fc.simrt {
		add = append(add, "simrt dsim/simrt")
	}
	sort.Strings(add)
	if len(add) > 0 {
		gd := &ast.GenDecl{Tok: token.IMPORT, Lparen: 1, Rparen: 1}
		for _, a := range add {
			parts := strings.SplitN(a, " ", 2)
			gd.Specs = append(gd.Specs, &ast.ImportSpec{Name: ast.NewIdent(parts[0]), Path: &ast.BasicLit{Kind: token.STRING, Value: strconv.Quote(parts[1])}})
		}
		// insert after the last existing import decl
		idx := 0
		for i, d := range f.Decls {
			if g, ok := d.(*ast.GenDecl); ok && g.Tok == token.IMPORT {
				idx = i + 1
			}
		}
		f.Decls = append(f.Decls[:idx], append([]ast.Decl{gd}, f.Decls[idx:]...)...)
	}

	var buf bytes.Buffer
	if err := (&printer.Config{Mode: printer.UseSpaces | printer.TabIndent, Tabwidth: 8}).Fprint(&buf, fset, f); err != nil {
		return fmt.Errorf("%s: print: %v", rel, err)
	}
	srcOut := buf.Bytes()
	if formatted, err := format.Source(srcOut); err == nil {
		srcOut = formatted
	} else {
		return fmt.Errorf("%s: instrumented source does not parse: %v\n%s", rel, err, srcOut)
	}
	return os.WriteFile(out, srcOut, 0o644)
}

func stripDocs(f *ast.File) {
	ast.Inspect(f, func(n ast.Node) bool {
		switch x := n.(type) {
		case *ast.FuncDecl:
			// keep compiler directives such as //go:noinline out of scope: none are needed for simulation
			x.Doc = nil
		case *ast.GenDecl:
			x.Doc = nil
		case *ast.TypeSpec:
			x.Doc, x.Comment = nil, nil
		case *ast.ValueSpec:
			x.Doc, x.Comment = nil, nil
		case *ast.Field:
			x.Doc, x.Comment = nil, nil
		case *ast.ImportSpec:
			x.Doc, x.Comment = nil, nil
		}
		return true
	})
}

func (fc *fileCtx) site(n ast.Node, kind string) string {
	p := fc.fset.Position(n.Pos())
	return fmt.Sprintf("%s:%d#%s", fc.rel, p.Line, kind)
}

func (fc *fileCtx) next() int { fc.counter++; return fc.counter }

func (fc *fileCtx) rewriteList(list []ast.Stmt) []ast.Stmt {
	var out []ast.Stmt
	for _, s := range list {
		out = append(out, fc.rewriteStmt(s)...)
	}
	return out
}

func isRecv(e ast.Expr) bool {
	for {
		if p, ok := e.(*ast.ParenExpr); ok {
			e = p.X
			continue
		}
		break
	}
	u, ok := e.(*ast.UnaryExpr)
	return ok && u.Op == token.ARROW
}

func (fc *fileCtx) rewriteStmt(s ast.Stmt) []ast.Stmt {
	switch x := s.(type) {
	case *ast.LabeledStmt:
		if sel, ok := x.Stmt.(*ast.SelectStmt); ok {
			return []ast.Stmt{fc.rewriteSelect(sel, x.Label.Name)}
		}
		inner := fc.rewriteStmt(x.Stmt)
		if len(inner) == 1 {
			x.Stmt = inner[0]
			return []ast.Stmt{x}
		}
		// keep the label on an empty statement is wrong for loops; only chan ops expand, which are never loop targets
		x.Stmt = &ast.BlockStmt{List: inner}
		return []ast.Stmt{x}
	case *ast.SelectStmt:
		return []ast.Stmt{fc.rewriteSelect(x, "")}
	case *ast.GoStmt:
		return []ast.Stmt{fc.rewriteGo(x)}
	case *ast.SendStmt:
		return fc.wrapBlocking(s, "send")
	case *ast.ExprStmt:
		if isRecv(x.X) {
			return fc.wrapBlocking(s, "recv")
		}
		if ce, ok := x.X.(*ast.CallExpr); ok {
			if id, ok := ce.Fun.(*ast.Ident); ok && id.Name == "close" && id.Obj == nil && len(ce.Args) == 1 {
				st.Closes++
				fc.simrt = true
				return []ast.Stmt{fc.parseStmts(fmt.Sprintf("simrt.Yield(%q)", fc.site(s, "close")))[0], s}
			}
		}
	case *ast.AssignStmt:
		if len(x.Rhs) == 1 && isRecv(x.Rhs[0]) {
			return fc.wrapBlocking(s, "recv")
		}
	}
	return []ast.Stmt{s}
}

func (fc *fileCtx) wrapBlocking(s ast.Stmt, kind string) []ast.Stmt {
	st.ChanOps++
	fc.simrt = true
	k := fc.next()
	pre := fc.parseStmts(fmt.Sprintf("_dst%d := simrt.BlockBegin(%q)", k, fc.site(s, kind)))
	post := fc.parseStmts(fmt.Sprintf("simrt.BlockEnd(_dst%d)", k))
	return []ast.Stmt{pre[0], s, post[0]}
}

func (fc *fileCtx) parseStmts(src string) []ast.Stmt {
	file := "package p\nfunc _() {\n" + src + "\n}\n"
	f, err := parser.ParseFile(token.NewFileSet(), "", file, parser.SkipObjectResolution)
	if err != nil {
		panic(fmt.Sprintf("instrument: internal template error: %v\n%s", err, file))
	}
	body := f.Decls[0].(*ast.FuncDecl).Body.List
	clearPos(body)
	return body
}

// clearPos zeroes positions of template nodes so the printer lays them out by structure.
func clearPos(list []ast.Stmt) {
	for _, s := range list {
		ast.Inspect(s, func(n ast.Node) bool {
			switch x := n.(type) {
			case *ast.Ident:
				x.NamePos = 0
			case *ast.BasicLit:
				x.ValuePos = 0
			case *ast.CallExpr:
				x.Lparen, x.Rparen = 0, 0
			case *ast.BlockStmt:
				x.Lbrace, x.Rbrace = 0, 0
			case *ast.AssignStmt:
				x.TokPos = 0
			case *ast.SelectStmt:
				x.Select = 0
			case *ast.SwitchStmt:
				x.Switch = 0
			case *ast.CaseClause:
				x.Case, x.Colon = 0, 0
			case *ast.CommClause:
				x.Case, x.Colon = 0, 0
			case *ast.ForStmt:
				x.For = 0
			case *ast.IfStmt:
				x.If = 0
			case *ast.UnaryExpr:
				x.OpPos = 0
			case *ast.BinaryExpr:
				x.OpPos = 0
			case *ast.SendStmt:
				x.Arrow = 0
			case *ast.IncDecStmt:
				x.TokPos = 0
			case *ast.ExprStmt:
			case *ast.LabeledStmt:
				x.Colon = 0
			case *ast.FuncLit:
				x.Type.Func = 0
			case *ast.ParenExpr:
				x.Lparen, x.Rparen = 0, 0
			}
			return true
		})
	}
}

func (fc *fileCtx) exprString(e ast.Expr) string {
	var buf bytes.Buffer
	if err := printer.Fprint(&buf, fc.fset, e); err != nil {
		panic(err)
	}
	return buf.String()
}

func (fc *fileCtx) rewriteGo(g *ast.GoStmt) ast.Stmt {
	st.GoStmts++
	fc.simrt = true
	k := fc.next()
	call := g.Call
	var lhs []ast.Expr
	var rhs []ast.Expr
	newArgs := make([]ast.Expr, len(call.Args))
	for i, a := range call.Args {
		switch v := a.(type) {
		case *ast.BasicLit:
			newArgs[i] = a
			continue
		case *ast.Ident:
			if v.Name == "nil" || v.Name == "true" || v.Name == "false" {
				newArgs[i] = a
				continue
			}
		}
		name := fmt.Sprintf("_dsa%d_%d", k, i)
		lhs = append(lhs, ast.NewIdent(name))
		rhs = append(rhs, a)
		newArgs[i] = ast.NewIdent(name)
	}
	inner := &ast.CallExpr{Fun: call.Fun, Args: newArgs, Ellipsis: call.Ellipsis}
	if call.Ellipsis != token.NoPos {
		inner.Ellipsis = 1
	}
	fl := &ast.FuncLit{Type: &ast.FuncType{Params: &ast.FieldList{}}, Body: &ast.BlockStmt{List: []ast.Stmt{&ast.ExprStmt{X: inner}}}}
	goCall := &ast.ExprStmt{X: &ast.CallExpr{
		Fun:  &ast.SelectorExpr{X: ast.NewIdent("simrt"), Sel: ast.NewIdent("Go")},
		Args: []ast.Expr{&ast.BasicLit{Kind: token.STRING, Value: strconv.Quote(fc.site(g, "go"))}, fl},
	}}
	blk := &ast.BlockStmt{}
	if len(lhs) > 0 {
		blk.List = append(blk.List, &ast.AssignStmt{Lhs: lhs, Tok: token.DEFINE, Rhs: rhs})
	}
	blk.List = append(blk.List, goCall)
	return blk
}

func (fc *fileCtx) rewriteSelect(sel *ast.SelectStmt, label string) ast.Stmt {
	st.Selects++
	fc.simrt = true
	k := fc.next()
	site := fc.site(sel, "select")
	type cl struct {
		cc      *ast.CommClause
		isSend  bool
		ch, val string
		bind    string // statement binding received values at the top of the body
	}
	var cls []*cl
	def := -1
	for i, c := range sel.Body.List {
		cc := c.(*ast.CommClause)
		x := &cl{cc: cc}
		switch comm := cc.Comm.(type) {
		case nil:
			def = i
		case *ast.SendStmt:
			x.isSend = true
			x.ch = fc.exprString(comm.Chan)
			x.val = fc.exprString(comm.Value)
		case *ast.ExprStmt:
			x.ch = fc.exprString(unparen(comm.X).(*ast.UnaryExpr).X)
		case *ast.AssignStmt:
			x.ch = fc.exprString(unparen(comm.Rhs[0]).(*ast.UnaryExpr).X)
			var l []string
			for _, e := range comm.Lhs {
				l = append(l, fc.exprString(e))
			}
			r := fmt.Sprintf("_dsv%d_%d", k, i)
			if len(l) == 2 {
				r += fmt.Sprintf(", _dsk%d_%d", k, i)
			}
			x.bind = strings.Join(l, ", ") + " " + comm.Tok.String() + " " + r
		}
		cls = append(cls, x)
	}
	var b strings.Builder
	w := func(f string, a ...any) { fmt.Fprintf(&b, f, a...) }
	w("{\n")
	w("simrt.Yield(%q)\n", site)
	n := 0
	for i, c := range cls {
		if i == def {
			continue
		}
		n++
		w("_dsc%d_%d := %s\n", k, i, c.ch)
		if c.isSend {
			w("_dss%d_%d := %s\n", k, i, c.val)
		} else {
			w("_dsv%d_%d, _dsk%d_%d := simrt.ZeroOf(_dsc%d_%d)\n", k, i, k, i, k, i)
			w("_, _ = _dsv%d_%d, _dsk%d_%d\n", k, i, k, i)
		}
	}
	comm := func(i int, c *cl) string {
		if c.isSend {
			return fmt.Sprintf("case _dsc%d_%d <- _dss%d_%d: _dsi%d = %d", k, i, k, i, k, i)
		}
		return fmt.Sprintf("case _dsv%d_%d, _dsk%d_%d = <-_dsc%d_%d: _dsi%d = %d", k, i, k, i, k, i, k, i)
	}
	w("_dsi%d := -1\n", k)
	if n > 0 {
		w("for _dsj, _dso := 0, simrt.SelectOrder(%d); _dsj < %d && _dsi%d < 0; _dsj++ {\n", n, n, k)
		w("switch (_dsj + _dso) %% %d {\n", n)
		j := 0
		for i, c := range cls {
			if i == def {
				continue
			}
			w("case %d:\nselect {\n%s\ndefault:\n}\n", j, comm(i, c))
			j++
		}
		w("}\n}\n")
	}
	w("if _dsi%d < 0 {\n", k)
	if def >= 0 {
		w("_dsi%d = %d\n", k, def)
	} else {
		w("_dst%d := simrt.BlockBeginNoYield(%q)\n", k, site)
		w("select {\n")
		for i, c := range cls {
			w("%s\n", comm(i, c))
		}
		w("}\n")
		w("simrt.BlockEnd(_dst%d)\n", k)
	}
	w("}\n")
	if label != "" {
		w("%s:\n", label)
	}
	w("switch _dsi%d {\n", k)
	for i, c := range cls {
		w("case %d:\n", i)
		if c.bind != "" {
			w("%s\n", c.bind)
		}
		w("_dsbody%d_%d()\n", k, i)
	}
	w("default:\npanic(\"simrt: unreachable select index\")\n")
	w("}\n}\n")
	stmts := fc.parseStmts(b.String())
	blk := stmts[0].(*ast.BlockStmt)
	// splice the original bodies in place of the placeholders
	var sw *ast.SwitchStmt
	last := blk.List[len(blk.List)-1]
	if ls, ok := last.(*ast.LabeledStmt); ok {
		sw = ls.Stmt.(*ast.SwitchStmt)
	} else {
		sw = last.(*ast.SwitchStmt)
	}
	for i, c := range cls {
		cc := sw.Body.List[i].(*ast.CaseClause)
		body := cc.Body[:len(cc.Body)-1] // drop placeholder call
		cc.Body = append(body, c.cc.Body...)
	}
	return blk
}

func unparen(e ast.Expr) ast.Expr {
	for {
		p, ok := e.(*ast.ParenExpr)
		if !ok {
			return e
		}
		e = p.X
	}
}
