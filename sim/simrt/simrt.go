// Package simrt is the deterministic cooperative runtime that every
// instrumented synchronisation operation of failsafe-go passes through.
//
// One simulation (Sim) runs inside one testing/synctest bubble. The bubble's
// root goroutine is the scheduler: it waits until every other goroutine is
// durably blocked, picks one parked task according to the strategy / replayed
// decision list, resumes it, and repeats. Exactly one task runs between two
// decisions. When nothing is runnable the scheduler blocks durably itself, so
// the bubble's fake clock jumps to the next timer.
//
// Race-detector discipline (see DESIGN §2.4): the hand-off between tasks and
// scheduler is wrapped in runtime.RaceDisable/RaceEnable so that it creates no
// happens-before edges, and every function touching simulator state is
// //go:norace and works on plain arrays/slices only.
package simrt

import (
	"runtime"
	"sync"
	"testing/synctest"
	"time"
)

// Task states.
const (
	StNew     = iota // created, goroutine not yet parked at entry
	StRunning        // the task the scheduler resumed last (or a woken goroutine on its way to park)
	StParked         // parked at a yield, runnable
	StMutex          // parked, waiting for a simulated mutex
	StBlocked        // inside a real (durably) blocking operation
	StExited
)

// Task kinds.
const (
	KindClient = iota // started by the harness
	KindGo            // started by a `go` statement in instrumented code
	KindTimer         // a time.AfterFunc callback in instrumented code
)

const MaxTasks = 2048

type Task struct {
	ID         int
	Parent     int
	Kind       int
	Tag        int // harness-defined (execution id); inherited by children
	State      int
	Site       string // last yield site
	LastBlock  string // site of the last real blocking operation the task woke from
	CreateSite string
	resume     chan struct{}
	waitMu     *MutexState
	goid       uint64
	blockStep  int
	observed   bool // seen durably blocked by the scheduler since BlockBegin
	prio       int
	HoldUntil  int  // not runnable before this step (fault-point sweeps)
	Force      bool // once HoldUntil is reached, picked immediately
	Poison     bool
	exiting    bool
	stallFor   time.Duration // set by the scheduler: sleep this long (fake time) before proceeding
	noYield    int           // >0: scheduling points are skipped (harness observation must not add interleavings)
	PanicVal   any
	PanicStack string
	StartStep  int
	ExitStep   int
	ExitTime   time.Time
	Foreign    bool // observed blocked outside a declared blocking operation
}

// MutexState is the simulator-side state of a shim mutex.
type MutexState struct {
	Held    bool
	Readers int
}

// Decision kinds.
const (
	DTask   = 't' // V = task id chosen among runnable
	DSelect = 's' // V = rotation offset for a select poll order
	DRand   = 'r' // V = math.Float64bits of a random draw
	DInt    = 'i' // V = harness integer choice
	DStall  = 'z' // V = 0 no stall, else index+1 into Config.StallDurs: the picked task is descheduled for that long before it proceeds
)

type Decision struct {
	K byte
	V int64
	N int // number of alternatives at that point (informational)
}

// Strategy ids.
const (
	StratSerial = iota
	StratRandom
	StratPCT
	StratSticky
)

type Config struct {
	Seed      uint64
	Strategy  int
	PCTDepth  int     // number of priority change points (PCT)
	PCTLen    int     // estimated run length for placing change points
	StickyP   float64 // probability to keep running the same task
	RandMode  int     // 0 uniform, 1 adversarial extremes
	MaxSteps  int
	Replay    []Decision
	Grace     time.Duration  // fake time to keep scheduling after the last client finished
	Horizon   time.Duration  // fake time after which a blocked system is a stall
	StepHook  func(step int) // called by the scheduler before each decision (fault-point sweeps); runs in scheduler context
	CheckGoid bool
	StallP    float64         // probability that a picked task is stalled (slow or descheduled goroutine) before it proceeds
	StallDurs []time.Duration // candidate stall durations (fake time)
}

// Outcome of a run.
type Outcome struct {
	Steps          int
	Decisions      []Decision
	Stalled        bool // clients unfinished, nothing runnable, nothing pending before the horizon
	Livelock       bool // step cap hit
	Deadlock       bool // only mutex waiters remain
	ReplayDiverged bool
	Choices        int // decisions with >= 2 alternatives
	Preemptions    int
	Trace          []TraceEntry
	TraceHash      uint64
	Foreign        int
	Stalls         int       // injected stalls
	TaskOverflow   bool      // more tasks than the simulator tracks: the run is abandoned
	Quiescent      time.Time // first instant at which every task had exited
	End            time.Time
	ClientsEnd     time.Time
}

type TraceEntry struct {
	Step int
	Task int
	Site string
	N    int
}

type Sim struct {
	cfg         Config
	mu          sync.Mutex
	tasks       [MaxTasks]*Task
	ntasks      int
	cur         *Task
	arrive      chan struct{}
	step        int
	rng         rng
	dec         []Decision
	rpos        int
	out         Outcome
	running     bool
	foreign     bool
	clientsLive int
	quiesced    bool
	heldLive    int
	liveTasks   int
	pctChange   []int
	lastPick    int
	start       time.Time
	syncAddr    int // address used for RaceReleaseMerge/RaceAcquire
	timers      []*TimerRec
	hash        uint64
	keepTrace   bool
	onStep      func(step int)
}

// TimerRec is a timer created by instrumented code.
type TimerRec struct {
	T                   *time.Timer
	Site                string
	Task                int
	Tag                 int
	Created             time.Time
	D                   time.Duration
	IsFunc              bool
	Fired               bool          // AfterFunc callbacks only
	PendingAtQuiescence bool          // still armed when every task had exited: nobody waits for it any more
	Remaining           time.Duration // time left then
}

// S is the simulation in progress (one per process at a time).
var S *Sim

type rng struct{ s uint64 }

//go:norace
func (r *rng) next() uint64 {
	r.s += 0x9e3779b97f4a7c15
	z := r.s
	z = (z ^ (z >> 30)) * 0xbf58476d1ce4e5b9
	z = (z ^ (z >> 27)) * 0x94d049bb133111eb
	return z ^ (z >> 31)
}

//go:norace
func (r *rng) intn(n int) int {
	if n <= 1 {
		return 0
	}
	return int(r.next() % uint64(n))
}

//go:norace
func (r *rng) float() float64 {
	return float64(r.next()>>11) / float64(1<<53)
}

// Mix is splitmix64 over a pair; used to derive per-run seeds.
func Mix(a, b uint64) uint64 {
	r := rng{s: a ^ (b * 0x9e3779b97f4a7c15)}
	r.next()
	return r.next()
}

// New creates a simulation. Must be called inside a synctest bubble by the
// goroutine that will call Run.
func New(cfg Config) *Sim {
	if cfg.MaxSteps == 0 {
		cfg.MaxSteps = 20000
	}
	if cfg.Grace == 0 {
		cfg.Grace = time.Hour
	}
	if cfg.Horizon == 0 {
		cfg.Horizon = 100000 * time.Hour
	}
	s := &Sim{cfg: cfg, arrive: make(chan struct{}, 1), rng: rng{s: cfg.Seed}, lastPick: -1}
	s.start = time.Now()
	s.dec = make([]Decision, 0, 256)
	s.out.Trace = make([]TraceEntry, 0, 256)
	s.timers = make([]*TimerRec, 0, 32)
	s.keepTrace = true
	s.hash = 1469598103934665603
	if cfg.Strategy == StratPCT {
		n := cfg.PCTLen
		if n <= 0 {
			n = 100
		}
		for i := 0; i < cfg.PCTDepth; i++ {
			s.pctChange = append(s.pctChange, s.rng.intn(n))
		}
	}
	S = s
	return s
}

// Start returns the fake instant at which the simulation was created.
func (s *Sim) Start() time.Time { return s.start }

// Now returns fake time elapsed since the simulation started.
//
//go:norace
func Now() time.Duration {
	return time.Since(S.start)
}

// Step returns the scheduler's global step counter.
//
//go:norace
func Step() int { return S.step }

//go:norace
func (s *Sim) newTask(kind int, parent *Task, site string) *Task {
	if s.ntasks >= MaxTasks {
		s.out.TaskOverflow = true
		return nil
	}
	t := &Task{ID: s.ntasks, Kind: kind, Parent: -1, CreateSite: site, resume: make(chan struct{}, 1), State: StNew}
	if parent != nil {
		t.Parent = parent.ID
		t.Tag = parent.Tag
	}
	t.prio = int(s.rng.next()>>1) | 1<<20
	t.StartStep = s.step
	s.tasks[s.ntasks] = t
	s.ntasks++
	s.liveTasks++
	if kind == KindClient {
		s.clientsLive++
	}
	return t
}

// Spawn creates a client task. Must be called by the scheduler goroutine
// before Run, or by a running task.
//
//go:norace
func (s *Sim) Spawn(tag int, f func()) int {
	raceDisable()
	s.mu.Lock()
	var parent *Task
	if s.running {
		parent = s.cur
	}
	t := s.newTask(KindClient, parent, "client")
	if t == nil {
		s.mu.Unlock()
		raceEnable()
		return -1
	}
	t.Tag = tag
	s.mu.Unlock()
	raceEnable()
	go s.taskMain(t, f)
	return t.ID
}

// SpawnHeld creates a client task that is not scheduled before the global step
// counter reaches holdUntil (or every other client has finished); with force it
// is then picked immediately. Used for fault-point sweeps.
//
//go:norace
func (s *Sim) SpawnHeld(tag int, holdUntil int, force bool, f func()) int {
	id := s.Spawn(tag, f)
	if id >= 0 && holdUntil > 0 {
		s.tasks[id].HoldUntil = holdUntil
		s.tasks[id].Force = force
		s.heldLive++
	}
	return id
}

// Go starts f as a library task (rewritten `go` statement).
//
//go:norace
func Go(site string, f func()) {
	s := S
	if s == nil || !s.running {
		go f()
		return
	}
	Yield(site)
	raceDisable()
	s.mu.Lock()
	t := s.newTask(KindGo, s.current(), site)
	s.mu.Unlock()
	raceEnable()
	if t == nil {
		return // abandoned run: the goroutine is not started
	}
	go s.taskMain(t, f)
}

func (s *Sim) taskMain(t *Task, f func()) {
	s.enter(t)
	defer s.exit(t)
	f()
}

//go:norace
func (s *Sim) enter(t *Task) {
	t.goid = goid()
	raceDisable()
	s.mu.Lock()
	t.State = StParked
	t.Site = "start"
	s.mu.Unlock()
	s.signal()
	<-t.resume
	raceEnable()
	if t.Poison {
		t.exiting = true
		runtime.Goexit()
	}
}

//go:norace
func (s *Sim) exit(t *Task) {
	if r := recover(); r != nil {
		t.PanicVal = r
		buf := make([]byte, 8192)
		n := runtime.Stack(buf, false)
		t.PanicStack = string(buf[:n])
	}
	raceReleaseMerge(&s.syncAddr)
	raceDisable()
	s.mu.Lock()
	t.State = StExited
	t.ExitStep = s.step
	t.ExitTime = time.Now()
	s.liveTasks--
	if t.Kind == KindClient {
		s.clientsLive--
	}
	s.mu.Unlock()
	s.signal()
	raceEnable()
}

//go:norace
func (s *Sim) signal() {
	select {
	case s.arrive <- struct{}{}:
	default:
	}
}

// current returns the task of the calling goroutine.
//
//go:norace
func (s *Sim) current() *Task {
	if !s.foreign && !s.cfg.CheckGoid {
		return s.cur
	}
	g := goid()
	for i := 0; i < s.ntasks; i++ {
		if s.tasks[i].goid == g && s.tasks[i].State != StExited {
			if s.cfg.CheckGoid && !s.foreign && s.tasks[i] != s.cur {
				panic("simrt: current task mismatch")
			}
			return s.tasks[i]
		}
	}
	return nil
}

// Current returns the calling task's id, or -1 outside a simulation task.
//
//go:norace
func Current() int {
	s := S
	if s == nil || !s.running {
		return -1
	}
	t := s.current()
	if t == nil {
		return -1
	}
	return t.ID
}

// Tag returns the calling task's tag.
//
//go:norace
func Tag() int {
	s := S
	if s == nil || !s.running {
		return -1
	}
	t := s.current()
	if t == nil {
		return -1
	}
	return t.Tag
}

// SetTag sets the calling task's tag (inherited by tasks it creates afterwards).
//
//go:norace
func SetTag(tag int) {
	s := S
	if s == nil || !s.running {
		return
	}
	if t := s.current(); t != nil {
		t.Tag = tag
	}
}

// TaskInfo returns the task with the given id.
//
//go:norace
func (s *Sim) TaskInfo(id int) *Task { return s.tasks[id] }

//go:norace
func (s *Sim) NumTasks() int { return s.ntasks }

// Yield is a scheduling point: the calling task parks and the scheduler decides
// who runs next.
//
//go:norace
func Yield(site string) {
	s := S
	if s == nil || !s.running {
		return
	}
	t := s.current()
	if t == nil || t.noYield > 0 {
		return
	}
	s.park(t, site, StParked)
}

// Quiet runs f with the calling task's scheduling points disabled: everything f
// does happens within one scheduler step. Used by harness observation code.
//
//go:norace
func Quiet(f func()) {
	s := S
	if s == nil || !s.running {
		f()
		return
	}
	t := s.current()
	if t == nil {
		f()
		return
	}
	t.noYield++
	f()
	t.noYield--
}

//go:norace
func (s *Sim) park(t *Task, site string, state int) {
	if t.exiting || !s.running {
		return
	}
	raceReleaseMerge(&s.syncAddr)
	raceDisable()
	s.mu.Lock()
	t.State = state
	t.Site = site
	s.mu.Unlock()
	s.signal()
	<-t.resume
	for t.stallFor > 0 && !t.Poison {
		// injected stall: the goroutine is descheduled here for a while; fake time may advance meanwhile
		d := t.stallFor
		t.stallFor = 0
		s.mu.Lock()
		t.State = StBlocked
		t.observed = false
		s.mu.Unlock()
		raceEnable()
		time.Sleep(d)
		raceDisable()
		s.mu.Lock()
		t.State = StParked
		s.mu.Unlock()
		s.signal()
		<-t.resume
	}
	raceEnable()
	if t.Poison {
		t.exiting = true
		runtime.Goexit()
	}
}

// BlockBegin declares that the calling task is about to perform an operation
// that may block durably (channel operation, select, sleep). It is a scheduling
// point. The returned handle must be passed to BlockEnd after the operation.
//
//go:norace
func BlockBegin(site string) *Task {
	s := S
	if s == nil || !s.running {
		return nil
	}
	t := s.current()
	if t == nil {
		return nil
	}
	s.park(t, site, StParked)
	raceDisable()
	s.mu.Lock()
	t.State = StBlocked
	t.blockStep = s.step
	t.observed = false
	s.mu.Unlock()
	raceEnable()
	return t
}

// BlockEnd ends a declared blocking operation. If the task really blocked and
// other tasks were scheduled meanwhile, it parks until the scheduler picks it.
//
//go:norace
func BlockEnd(t *Task) {
	if t == nil {
		return
	}
	s := S
	if !s.running || t.exiting {
		t.State = StRunning
		if t.Poison && !t.exiting {
			t.exiting = true
			runtime.Goexit()
		}
		return
	}
	raceDisable()
	s.mu.Lock()
	if s.cur == t && s.step == t.blockStep && !t.observed {
		// did not block (or woke before the scheduler looked): still the running task
		t.State = StRunning
		s.mu.Unlock()
		raceEnable()
		return
	}
	t.State = StParked
	t.LastBlock = t.Site
	t.Site = t.Site + "+wake"
	s.mu.Unlock()
	s.signal()
	<-t.resume
	raceEnable()
	if t.Poison {
		t.exiting = true
		runtime.Goexit()
	}
}

// SelectOrder returns a rotation offset in [0,n) deciding the order in which
// the ready cases of a rewritten select are polled.
//
//go:norace
func SelectOrder(n int) int {
	s := S
	if s == nil || !s.running || n <= 1 {
		return 0
	}
	v := int(s.decide(DSelect, n, func() int64 { return int64(s.rng.intn(n)) }))
	if v < 0 || v >= n {
		v = 0
	}
	s.settle(DSelect, int64(v))
	return v
}

// Float64 returns a simulator-controlled draw in [0,1).
//
//go:norace
func Float64() float64 {
	s := S
	if s == nil || !s.running {
		return 0.5
	}
	v := s.decide(DRand, 0, func() int64 {
		var f float64
		if s.cfg.RandMode == 1 {
			switch s.rng.intn(6) {
			case 0:
				f = 0
			case 1:
				f = 1e-12
			case 2:
				f = 0.5
			case 3:
				f = 1 - 1e-12
			case 4:
				f = 0.999999
			default:
				f = s.rng.float()
			}
		} else {
			f = s.rng.float()
		}
		return int64(f * float64(1<<53))
	})
	f := float64(v) / float64(1<<53)
	if f < 0 || f >= 1 {
		f = 0.5
		v = 1 << 52
	}
	s.settle(DRand, v)
	return f
}

// Intn is a harness-level simulator-controlled choice, recorded for replay.
//
//go:norace
func Intn(n int) int {
	s := S
	if s == nil || !s.running || n <= 1 {
		return 0
	}
	v := int(s.decide(DInt, n, func() int64 { return int64(s.rng.intn(n)) }))
	if v < 0 || v >= n {
		v = 0
	}
	s.settle(DInt, int64(v))
	return v
}

// decide returns the next replayed decision of kind k, else a fresh one from gen.
//
//go:norace
func (s *Sim) decide(k byte, n int, gen func() int64) int64 {
	var v int64
	if s.rpos < len(s.cfg.Replay) {
		d := s.cfg.Replay[s.rpos]
		s.rpos++
		if d.K == k {
			v = d.V
		} else {
			s.out.ReplayDiverged = true
			v = 0
			if k == DRand {
				v = 1 << 52
			}
		}
	} else if s.cfg.Replay != nil {
		// replay exhausted: default continuation
		v = 0
		if k == DRand {
			v = 1 << 52
		}
		if k == DTask {
			v = -1
		}
		if k == DStall {
			v = 0
		}
	} else {
		v = gen()
	}
	s.dec = append(s.dec, Decision{K: k, V: v, N: n})
	return v
}

// settle records the value a decision finally took (after clamping or the
// default continuation) and mixes it into the schedule hash.
//
//go:norace
func (s *Sim) settle(k byte, v int64) {
	s.dec[len(s.dec)-1].V = v
	s.hash = (s.hash ^ uint64(v) ^ uint64(k)<<56) * 1099511628211
}

// AddTimer registers a timer created by instrumented code.
//
//go:norace
func AddTimer(r *TimerRec) {
	s := S
	if s == nil || !s.running {
		return
	}
	t := s.current()
	if t != nil {
		r.Task = t.ID
		r.Tag = t.Tag
	}
	r.Created = time.Now()
	s.timers = append(s.timers, r)
}

// Timers returns the registered timers.
func (s *Sim) Timers() []*TimerRec { return s.timers }

// AfterFuncTask creates a task for an AfterFunc callback; the returned function
// must be used as the real timer's callback.
//
//go:norace
func AfterFuncTask(site string, rec *TimerRec, f func()) func() {
	s := S
	if s == nil || !s.running {
		return f
	}
	raceDisable()
	s.mu.Lock()
	t := s.newTask(KindTimer, s.current(), site)
	if t == nil {
		s.mu.Unlock()
		raceEnable()
		return func() {}
	}
	t.State = StBlocked // not runnable until the timer fires
	s.liveTasks--       // a pending callback is not a live task until it fires
	s.mu.Unlock()
	raceEnable()
	return func() {
		s.timerFired(rec)
		s.taskMain(t, f)
	}
}

//go:norace
func (s *Sim) timerFired(rec *TimerRec) {
	raceDisable()
	s.mu.Lock()
	s.liveTasks++
	rec.Fired = true
	s.mu.Unlock()
	raceEnable()
}

// IsAncestor reports whether task anc is t or one of its ancestors.
//
//go:norace
func IsAncestor(anc, t int) bool {
	s := S
	if s == nil {
		return false
	}
	for t >= 0 && t < s.ntasks {
		if t == anc {
			return true
		}
		t = s.tasks[t].Parent
	}
	return false
}

// Run is the scheduler loop. It returns when every task has exited, or the
// system is quiescent after the grace period, or a stall/livelock is detected.
//
//go:norace
func (s *Sim) Run() *Outcome {
	raceDisable()
	s.running = true
	clientsDone := false
	var graceEnd time.Time
	for {
		synctest.Wait()
		// every other goroutine of the bubble is durably blocked now
		if s.cur != nil && s.cur.State == StRunning {
			// blocked outside any declared blocking operation
			s.cur.Foreign = true
			s.cur.State = StBlocked
			s.foreign = true
			s.out.Foreign++
		}
		if s.clientsLive == 0 && !clientsDone {
			clientsDone = true
			s.out.ClientsEnd = time.Now()
			graceEnd = time.Now().Add(s.cfg.Grace)
		}
		if clientsDone && s.liveTasks == 0 && !s.quiesced {
			s.quiesced = true
			s.out.Quiescent = time.Now()
			s.snapshotTimers()
		}
		var run [MaxTasks]*Task
		n := 0
		nMutex, nBlocked, nHeld := 0, 0, 0
		var forced *Task
		for i := 0; i < s.ntasks; i++ {
			t := s.tasks[i]
			switch t.State {
			case StParked:
				if t.HoldUntil > 0 {
					if s.step < t.HoldUntil && s.clientsLive > s.heldLive {
						nHeld++
						continue
					}
					t.HoldUntil = 0
					s.heldLive--
					if t.Force && forced == nil {
						forced = t
					}
				}
				run[n] = t
				n++
			case StMutex:
				if !t.waitMu.Held {
					run[n] = t
					n++
				} else {
					nMutex++
				}
			case StBlocked:
				if t.Kind != KindTimer || t.goid != 0 {
					nBlocked++
					t.observed = true
				}
			}
		}
		if forced != nil {
			run[0] = forced
			n = 1
		}
		if n == 0 {
			if clientsDone {
				if !time.Now().Before(graceEnd) {
					break // survivors, if any, are reported by the harness as leaks
				}
				s.idle(graceEnd.Sub(time.Now()))
				continue
			}
			if nBlocked == 0 && nHeld == 0 {
				if nMutex > 0 {
					s.out.Deadlock = true
				} else {
					s.out.Stalled = true
				}
				break
			}
			// clients alive, everyone blocked: wait for a timer, up to the horizon
			left := s.cfg.Horizon - time.Since(s.start)
			if left <= 0 || s.idle(left) {
				s.out.Stalled = true
				break
			}
			continue
		}
		if s.step >= s.cfg.MaxSteps || s.out.TaskOverflow {
			s.out.Livelock = true
			break
		}
		if s.cfg.StepHook != nil {
			raceEnable()
			s.cfg.StepHook(s.step)
			raceDisable()
		}
		pick := s.choose(run[:n])
		s.step++
		if n > 1 {
			s.out.Choices++
			if s.lastPick >= 0 && pick.ID != s.lastPick {
				for i := 0; i < n; i++ {
					if run[i].ID == s.lastPick {
						s.out.Preemptions++
					}
				}
			}
		}
		s.lastPick = pick.ID
		if s.keepTrace {
			s.out.Trace = append(s.out.Trace, TraceEntry{Step: s.step, Task: pick.ID, Site: pick.Site, N: n})
		}
		for i := 0; i < len(pick.Site); i++ {
			s.hash = (s.hash ^ uint64(pick.Site[i])) * 1099511628211
		}
		s.hash = (s.hash ^ uint64(pick.ID)) * 1099511628211
		if s.cfg.StallP > 0 && len(s.cfg.StallDurs) > 0 && pick.Site != "start" {
			nd := len(s.cfg.StallDurs)
			v := s.decide(DStall, nd+1, func() int64 {
				if s.rng.float() < s.cfg.StallP {
					return int64(1 + s.rng.intn(nd))
				}
				return 0
			})
			if v < 0 || v > int64(nd) {
				v = 0
			}
			s.settle(DStall, v)
			if v > 0 {
				pick.stallFor = s.cfg.StallDurs[v-1]
				s.out.Stalls++
			}
		}
		pick.State = StRunning
		s.cur = pick
		pick.resume <- struct{}{}
	}
	s.out.Steps = s.step
	s.out.Decisions = s.dec
	s.out.TraceHash = s.hash
	s.out.End = time.Now()
	s.running = false
	raceEnable()
	raceAcquire(&s.syncAddr)
	return &s.out
}

// idle blocks the scheduler durably for at most d of fake time or until a task
// arrives. It reports whether the full duration elapsed with no arrival.
//
//go:norace
func (s *Sim) idle(d time.Duration) bool {
	if d <= 0 {
		return true
	}
	select {
	case <-s.arrive:
		return false
	default:
	}
	raceEnable() // timer creation synchronises internally (sync.Once): must not happen with sync events ignored
	tm := time.NewTimer(d)
	raceDisable()
	select {
	case <-s.arrive:
		tm.Stop()
		return false
	case <-tm.C:
		return true
	}
}

//go:norace
func (s *Sim) choose(run []*Task) *Task {
	n := len(run)
	gen := func() int64 {
		if n == 1 {
			return int64(run[0].ID)
		}
		switch s.cfg.Strategy {
		case StratSerial:
			// keep the running task if still runnable, else lowest id
			for _, t := range run {
				if t.ID == s.lastPick {
					return int64(t.ID)
				}
			}
			return int64(run[0].ID)
		case StratSticky:
			if s.rng.float() < s.cfg.StickyP {
				for _, t := range run {
					if t.ID == s.lastPick {
						return int64(t.ID)
					}
				}
			}
			return int64(run[s.rng.intn(n)].ID)
		case StratPCT:
			for _, c := range s.pctChange {
				if c == s.step && s.cur != nil {
					s.cur.prio = s.step // drop below all initial priorities
				}
			}
			best := run[0]
			for _, t := range run[1:] {
				if t.prio > best.prio {
					best = t
				}
			}
			return int64(best.ID)
		default:
			return int64(run[s.rng.intn(n)].ID)
		}
	}
	v := s.decide(DTask, n, gen)
	for _, t := range run {
		if int64(t.ID) == v {
			s.settle(DTask, v)
			return t
		}
	}
	if s.cfg.Replay != nil {
		if v != -1 {
			s.out.ReplayDiverged = true
		}
		// default continuation: keep the running task, else lowest id
		for _, t := range run {
			if t.ID == s.lastPick {
				s.settle(DTask, int64(t.ID))
				return t
			}
		}
	}
	s.settle(DTask, int64(run[0].ID))
	return run[0]
}

// Survivors returns the tasks that have not exited.
//
//go:norace
func (s *Sim) Survivors() []*Task {
	var r []*Task
	for i := 0; i < s.ntasks; i++ {
		t := s.tasks[i]
		if t.State == StExited {
			continue
		}
		if t.Kind == KindTimer && t.goid == 0 {
			continue // callback never fired: a timer, not a goroutine
		}
		r = append(r, t)
	}
	return r
}

// Reap tries to terminate surviving parked tasks so the bubble can exit
// cleanly. Tasks blocked in real operations are left to the caller (cancel
// contexts, then call Reap again).
//
//go:norace
func (s *Sim) Reap() {
	raceDisable()
	for round := 0; round < 4; round++ {
		synctest.Wait()
		any := false
		for i := 0; i < s.ntasks; i++ {
			t := s.tasks[i]
			if t.State == StParked || t.State == StMutex {
				t.Poison = true
				t.State = StRunning
				t.resume <- struct{}{}
				any = true
			}
		}
		if !any {
			break
		}
	}
	synctest.Wait()
	raceEnable()
}

// Poisoned marks every task so that its next scheduling point terminates it.
//
//go:norace
func (s *Sim) PoisonAll() {
	for i := 0; i < s.ntasks; i++ {
		s.tasks[i].Poison = true
	}
}

func goid() uint64 {
	var buf [64]byte
	n := runtime.Stack(buf[:], false)
	// "goroutine 123 ["
	var id uint64
	for i := 10; i < n; i++ {
		c := buf[i]
		if c < '0' || c > '9' {
			break
		}
		id = id*10 + uint64(c-'0')
	}
	return id
}

// ---- simulated mutex support (used by shim/sync) ----

// MutexLock implements Lock for a shim mutex whose real inner lock is taken by
// try. try must attempt the real acquisition without blocking.
//
//go:norace
func MutexLock(m *MutexState, site string, try func() bool) bool {
	s := S
	if s == nil || !s.running {
		return false
	}
	t := s.current()
	if t == nil {
		return false
	}
	s.park(t, site, StParked)
	for {
		if try() {
			m.Held = true
			return true
		}
		t.waitMu = m
		m.Held = true // someone holds it (possibly a non-task goroutine)
		s.park(t, site+"+wait", StMutex)
	}
}

// MutexUnlock is called before the real unlock.
//
//go:norace
func MutexUnlock(m *MutexState, site string) {
	s := S
	if s == nil || !s.running {
		return
	}
	t := s.current()
	if t == nil {
		return
	}
	s.park(t, site, StParked)
	m.Held = false
}

// ZeroOf declares typed temporaries for a rewritten select receive case.
func ZeroOf[T any](c <-chan T) (T, bool) {
	var z T
	return z, false
}

// BlockBeginNoYield is BlockBegin without the leading scheduling point (the
// rewritten select has just yielded and polled).
//
//go:norace
func BlockBeginNoYield(site string) *Task {
	s := S
	if s == nil || !s.running {
		return nil
	}
	t := s.current()
	if t == nil || t.exiting {
		return nil
	}
	raceDisable()
	s.mu.Lock()
	t.State = StBlocked
	t.Site = site
	t.blockStep = s.step
	t.observed = false
	s.mu.Unlock()
	raceEnable()
	return t
}

// snapshotTimers records which library timers are still armed now that every
// task has exited, and re-arms them so behaviour is unchanged.
//
//go:norace
func (s *Sim) snapshotTimers() {
	raceEnable()
	now := time.Now()
	for _, r := range s.timers {
		if r.T == nil {
			continue
		}
		if r.T.Stop() {
			r.PendingAtQuiescence = true
			r.Remaining = r.Created.Add(r.D).Sub(now)
			if r.Remaining < 0 {
				r.Remaining = 0
			}
			r.T.Reset(r.Remaining)
		}
	}
	raceDisable()
}
