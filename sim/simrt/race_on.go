//go:build race

package simrt

import (
	"runtime"
	"unsafe"
)

const RaceEnabled = true

func raceDisable()            { runtime.RaceDisable() }
func raceEnable()             { runtime.RaceEnable() }
func raceReleaseMerge(p *int) { runtime.RaceReleaseMerge(unsafe.Pointer(p)) }
func raceAcquire(p *int)      { runtime.RaceAcquire(unsafe.Pointer(p)) }
func RaceErrors() int         { return runtime.RaceErrors() }
