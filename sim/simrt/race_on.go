//go:build race

package simrt

import (
	"runtime"
	"unsafe"
)

const RaceEnabled = true

func raceDisable()            { runtime.RaceDisable() }
func raceEnable()             { runtime.RaceEnable() }
func raceReleaseMerge(p *int) { runtime.RaceReleaseMerge(unsafe.Pointer(p)) }
func raceAcquire(p *int)      { runtime.RaceAcquire(unsafe.Pointer(p)) }
func RaceErrors() int         { return runtime.RaceErrors() }

// HarnessRelease / HarnessAcquire give harness stand-ins for user-supplied components (a Cache implementation) the
// happens-before edge their real counterparts have through their own lock: everything done before a Release on p
// happens before whatever follows a later Acquire on p.
func HarnessRelease(p *int) { runtime.RaceReleaseMerge(unsafe.Pointer(p)) }
func HarnessAcquire(p *int) { runtime.RaceAcquire(unsafe.Pointer(p)) }
