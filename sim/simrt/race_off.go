//go:build !race

package simrt

const RaceEnabled = false

func raceDisable()            {}
func raceEnable()             {}
func raceReleaseMerge(p *int) {}
func raceAcquire(p *int)      {}
func RaceErrors() int         { return 0 }

func HarnessRelease(p *int) {}
func HarnessAcquire(p *int) {}
