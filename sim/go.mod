module dsim

go 1.26.8

require (
	github.com/anishathalye/porcupine v1.3.0
	github.com/failsafe-go/failsafe-go v0.0.0
)

require github.com/bits-and-blooms/bitset v1.20.0 // indirect

replace github.com/failsafe-go/failsafe-go => /tmp/dsim-scratch/repo
