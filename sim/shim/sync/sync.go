// Package sync is the simulation shim for the standard sync package: Mutex and
// RWMutex are scheduling points whose contended acquisition order is decided
// by the simulator. The real lock is still taken, so the race detector sees
// the program's true lock edges.
package sync

import (
	"sync"
	"sync/atomic"

	"dsim/simrt"
)

type (
	Locker = sync.Locker
	Pool   = sync.Pool
	Map    = sync.Map
)

// Once, WaitGroup and Cond are not used by the library at the pinned commit; they are provided so
// that a working tree which starts using them still runs under the scheduler (with the real ones a
// task would block inside the primitive while another, parked, task holds it, and the run would
// hang). Their internal state is guarded by real locks and atomics, which are never held across a
// scheduling point, so the race detector sees the edges the real primitives give.

// Once: the first caller runs f under a scheduler-aware mutex; the others wait for it to finish.
type Once struct {
	mu   Mutex
	done atomic.Bool
}

func (o *Once) Do(f func()) {
	if o.done.Load() {
		return
	}
	o.mu.Lock()
	defer o.mu.Unlock()
	if !o.done.Load() {
		defer o.done.Store(true)
		f()
	}
}

func OnceFunc(f func()) func() {
	var o Once
	return func() { o.Do(f) }
}

func OnceValue[T any](f func() T) func() T {
	var o Once
	var v T
	return func() T { o.Do(func() { v = f() }); return v }
}

func OnceValues[T1, T2 any](f func() (T1, T2)) func() (T1, T2) {
	var o Once
	var v1 T1
	var v2 T2
	return func() (T1, T2) { o.Do(func() { v1, v2 = f() }); return v1, v2 }
}

// WaitGroup: Wait parks the task on a channel (a declared blocking operation).
type WaitGroup struct {
	mu sync.Mutex
	n  int
	ch chan struct{}
}

func (wg *WaitGroup) Add(delta int) {
	simrt.Yield("waitgroup.Add")
	wg.mu.Lock()
	wg.n += delta
	if wg.n < 0 {
		wg.mu.Unlock()
		panic("sync: negative WaitGroup counter")
	}
	if wg.n == 0 && wg.ch != nil {
		close(wg.ch)
		wg.ch = nil
	}
	wg.mu.Unlock()
}

func (wg *WaitGroup) Done() { wg.Add(-1) }

func (wg *WaitGroup) Go(f func()) {
	wg.Add(1)
	simrt.Go("waitgroup.Go", func() {
		defer wg.Done()
		f()
	})
}

func (wg *WaitGroup) Wait() {
	wg.mu.Lock()
	if wg.n == 0 {
		wg.mu.Unlock()
		simrt.Yield("waitgroup.Wait")
		return
	}
	if wg.ch == nil {
		wg.ch = make(chan struct{})
	}
	c := wg.ch
	wg.mu.Unlock()
	t := simrt.BlockBegin("waitgroup.Wait")
	<-c
	simrt.BlockEnd(t)
}

// Cond: waiters park on their own channel; Signal wakes the longest waiting one.
type Cond struct {
	L       Locker
	mu      sync.Mutex
	waiters []chan struct{}
}

func NewCond(l Locker) *Cond { return &Cond{L: l} }

func (c *Cond) Wait() {
	ch := make(chan struct{})
	c.mu.Lock()
	c.waiters = append(c.waiters, ch)
	c.mu.Unlock()
	c.L.Unlock()
	t := simrt.BlockBegin("cond.Wait")
	<-ch
	simrt.BlockEnd(t)
	c.L.Lock()
}

func (c *Cond) Signal() {
	simrt.Yield("cond.Signal")
	c.mu.Lock()
	if len(c.waiters) > 0 {
		close(c.waiters[0])
		c.waiters = c.waiters[1:]
	}
	c.mu.Unlock()
}

func (c *Cond) Broadcast() {
	simrt.Yield("cond.Broadcast")
	c.mu.Lock()
	for _, w := range c.waiters {
		close(w)
	}
	c.waiters = nil
	c.mu.Unlock()
}

type Mutex struct {
	mu sync.Mutex
	st simrt.MutexState
}

func (m *Mutex) Lock() {
	if !simrt.MutexLock(&m.st, "mutex.Lock", m.mu.TryLock) {
		m.mu.Lock()
	}
}

func (m *Mutex) TryLock() bool {
	simrt.Yield("mutex.TryLock")
	ok := m.mu.TryLock()
	if ok {
		m.st.Held = true
	}
	return ok
}

func (m *Mutex) Unlock() {
	simrt.MutexUnlock(&m.st, "mutex.Unlock")
	m.mu.Unlock()
}

type RWMutex struct {
	mu sync.RWMutex
	st simrt.MutexState
}

func (m *RWMutex) Lock() {
	if !simrt.MutexLock(&m.st, "rwmutex.Lock", m.mu.TryLock) {
		m.mu.Lock()
	}
}

func (m *RWMutex) Unlock() {
	simrt.MutexUnlock(&m.st, "rwmutex.Unlock")
	m.mu.Unlock()
}

func (m *RWMutex) RLock() {
	if !simrt.MutexLock(&m.st, "rwmutex.RLock", m.mu.TryRLock) {
		m.mu.RLock()
		return
	}
	// readers do not exclude each other
	m.st.Held = false
}

func (m *RWMutex) RUnlock() {
	simrt.MutexUnlock(&m.st, "rwmutex.RUnlock")
	m.mu.RUnlock()
}

func (m *RWMutex) TryLock() bool   { simrt.Yield("rwmutex.TryLock"); return m.mu.TryLock() }
func (m *RWMutex) TryRLock() bool  { simrt.Yield("rwmutex.TryRLock"); return m.mu.TryRLock() }
func (m *RWMutex) RLocker() Locker { return (*rlocker)(m) }

type rlocker RWMutex

func (r *rlocker) Lock()   { (*RWMutex)(r).RLock() }
func (r *rlocker) Unlock() { (*RWMutex)(r).RUnlock() }
