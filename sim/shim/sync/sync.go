// Package sync is the simulation shim for the standard sync package: Mutex and
// RWMutex are scheduling points whose contended acquisition order is decided
// by the simulator. The real lock is still taken, so the race detector sees
// the program's true lock edges.
package sync

import (
	"sync"

	"dsim/simrt"
)

type (
	WaitGroup = sync.WaitGroup
	Once      = sync.Once
	Cond      = sync.Cond
	Locker    = sync.Locker
	Pool      = sync.Pool
	Map       = sync.Map
)

func NewCond(l Locker) *Cond { return sync.NewCond(l) }

func OnceFunc(f func()) func()                                 { return sync.OnceFunc(f) }
func OnceValue[T any](f func() T) func() T                     { return sync.OnceValue(f) }
func OnceValues[T1, T2 any](f func() (T1, T2)) func() (T1, T2) { return sync.OnceValues(f) }

type Mutex struct {
	mu sync.Mutex
	st simrt.MutexState
}

func (m *Mutex) Lock() {
	if !simrt.MutexLock(&m.st, "mutex.Lock", m.mu.TryLock) {
		m.mu.Lock()
	}
}

func (m *Mutex) TryLock() bool {
	simrt.Yield("mutex.TryLock")
	ok := m.mu.TryLock()
	if ok {
		m.st.Held = true
	}
	return ok
}

func (m *Mutex) Unlock() {
	simrt.MutexUnlock(&m.st, "mutex.Unlock")
	m.mu.Unlock()
}

type RWMutex struct {
	mu sync.RWMutex
	st simrt.MutexState
}

func (m *RWMutex) Lock() {
	if !simrt.MutexLock(&m.st, "rwmutex.Lock", m.mu.TryLock) {
		m.mu.Lock()
	}
}

func (m *RWMutex) Unlock() {
	simrt.MutexUnlock(&m.st, "rwmutex.Unlock")
	m.mu.Unlock()
}

func (m *RWMutex) RLock() {
	if !simrt.MutexLock(&m.st, "rwmutex.RLock", m.mu.TryRLock) {
		m.mu.RLock()
		return
	}
	// readers do not exclude each other
	m.st.Held = false
}

func (m *RWMutex) RUnlock() {
	simrt.MutexUnlock(&m.st, "rwmutex.RUnlock")
	m.mu.RUnlock()
}

func (m *RWMutex) TryLock() bool   { simrt.Yield("rwmutex.TryLock"); return m.mu.TryLock() }
func (m *RWMutex) TryRLock() bool  { simrt.Yield("rwmutex.TryRLock"); return m.mu.TryRLock() }
func (m *RWMutex) RLocker() Locker { return (*rlocker)(m) }

type rlocker RWMutex

func (r *rlocker) Lock()   { (*RWMutex)(r).RLock() }
func (r *rlocker) Unlock() { (*RWMutex)(r).RUnlock() }
