package sync

import (
	"testing"
	"time"
)

// Outside a simulation the shims must behave like the real primitives.
func TestShimsOutsideSimulation(t *testing.T) {
	var wg WaitGroup
	n := 0
	var mu Mutex
	for i := 0; i < 8; i++ {
		wg.Add(1)
		go func() {
			defer wg.Done()
			mu.Lock()
			n++
			mu.Unlock()
		}()
	}
	wg.Wait()
	if n != 8 {
		t.Fatalf("n=%d", n)
	}
	var once Once
	k := 0
	for i := 0; i < 3; i++ {
		once.Do(func() { k++ })
	}
	if k != 1 {
		t.Fatalf("once ran %d times", k)
	}
	c := NewCond(&mu)
	ready := false
	done := make(chan struct{})
	go func() {
		mu.Lock()
		for !ready {
			c.Wait()
		}
		mu.Unlock()
		close(done)
	}()
	time.Sleep(10 * time.Millisecond)
	mu.Lock()
	ready = true
	mu.Unlock()
	c.Broadcast()
	select {
	case <-done:
	case <-time.After(2 * time.Second):
		t.Fatal("cond waiter not woken")
	}
	if OnceValue(func() int { return 7 })() != 7 {
		t.Fatal("OnceValue")
	}
}
