// Package context is the simulation shim for context constructors: the
// returned cancel functions are scheduling points.
package context

import (
	"context"
	"time"

	"dsim/simrt"
)

func WithCancel(parent context.Context) (context.Context, context.CancelFunc) {
	ctx, cancel := context.WithCancel(parent)
	return ctx, func() { simrt.Yield("ctx.cancel"); cancel() }
}

func WithCancelCause(parent context.Context) (context.Context, context.CancelCauseFunc) {
	ctx, cancel := context.WithCancelCause(parent)
	return ctx, func(cause error) { simrt.Yield("ctx.cancelCause"); cancel(cause) }
}

func WithTimeout(parent context.Context, d time.Duration) (context.Context, context.CancelFunc) {
	ctx, cancel := context.WithTimeout(parent, d)
	return ctx, func() { simrt.Yield("ctx.cancel"); cancel() }
}

func WithDeadline(parent context.Context, t time.Time) (context.Context, context.CancelFunc) {
	ctx, cancel := context.WithDeadline(parent, t)
	return ctx, func() { simrt.Yield("ctx.cancel"); cancel() }
}

func WithTimeoutCause(parent context.Context, d time.Duration, cause error) (context.Context, context.CancelFunc) {
	ctx, cancel := context.WithTimeoutCause(parent, d, cause)
	return ctx, func() { simrt.Yield("ctx.cancel"); cancel() }
}

func WithDeadlineCause(parent context.Context, t time.Time, cause error) (context.Context, context.CancelFunc) {
	ctx, cancel := context.WithDeadlineCause(parent, t, cause)
	return ctx, func() { simrt.Yield("ctx.cancel"); cancel() }
}

// AfterFunc: the goroutine the standard library starts for f once ctx is done becomes a simulator task
// (created now, pending until then), like a time.AfterFunc callback.
func AfterFunc(ctx context.Context, f func()) (stop func() bool) {
	rec := &simrt.TimerRec{Site: "context.AfterFunc", IsFunc: true}
	cb := simrt.AfterFuncTask("context.AfterFunc", rec, f)
	return context.AfterFunc(ctx, cb)
}
