// Package rand is the simulation shim for math/rand's top-level draws: values
// come from the simulator's choice stream (uniform or adversarial extremes)
// and are recorded for replay.
package rand

import "dsim/simrt"

func Float64() float64 { return simrt.Float64() }
func Float32() float32 {
	f := float32(simrt.Float64())
	if f >= 1 {
		f = 0.99999994
	}
	return f
}
func Intn(n int) int       { return int(simrt.Float64() * float64(n)) }
func Int63n(n int64) int64 { return int64(simrt.Float64() * float64(n)) }
func Int31n(n int32) int32 { return int32(simrt.Float64() * float64(n)) }
func Int63() int64         { return int64(simrt.Float64() * float64(1<<62)) }
func Int() int             { return int(simrt.Float64() * float64(1<<62)) }
