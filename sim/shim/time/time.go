// Package time is the simulation shim for the blocking and timer-creating
// parts of the standard time package. Clock reads are not shimmed: inside a
// synctest bubble time.Now is already the simulator's fake clock.
package time

import (
	"time"

	"dsim/simrt"
)

// NewTimer registers the timer with the simulator (leak oracle) and returns
// the real (fake-clock) timer.
func NewTimer(d time.Duration) *time.Timer {
	t := time.NewTimer(d)
	simrt.AddTimer(&simrt.TimerRec{T: t, Site: "time.NewTimer", D: d})
	return t
}

// AfterFunc runs f as a simulator task when the timer fires.
func AfterFunc(d time.Duration, f func()) *time.Timer {
	rec := &simrt.TimerRec{Site: "time.AfterFunc", D: d, IsFunc: true}
	cb := simrt.AfterFuncTask("time.AfterFunc", rec, f)
	t := time.AfterFunc(d, cb)
	rec.T = t
	simrt.AddTimer(rec)
	return t
}

func After(d time.Duration) <-chan time.Time {
	return NewTimer(d).C
}

func Sleep(d time.Duration) {
	t := simrt.BlockBegin("time.Sleep")
	time.Sleep(d)
	simrt.BlockEnd(t)
}
