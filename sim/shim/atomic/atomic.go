// Package atomic is the simulation shim for sync/atomic: every operation is a
// scheduling point followed by the real atomic operation.
package atomic

import (
	"sync/atomic"
	"unsafe"

	"dsim/simrt"
)

type Value = atomic.Value

type Bool struct{ v atomic.Bool }

func (x *Bool) Load() bool         { simrt.Yield("atomic.Load"); return x.v.Load() }
func (x *Bool) Store(val bool)     { simrt.Yield("atomic.Store"); x.v.Store(val) }
func (x *Bool) Swap(new bool) bool { simrt.Yield("atomic.Swap"); return x.v.Swap(new) }
func (x *Bool) CompareAndSwap(old, new bool) bool {
	simrt.Yield("atomic.CAS")
	return x.v.CompareAndSwap(old, new)
}

type Int32 struct{ v atomic.Int32 }

func (x *Int32) Load() int32          { simrt.Yield("atomic.Load"); return x.v.Load() }
func (x *Int32) Store(val int32)      { simrt.Yield("atomic.Store"); x.v.Store(val) }
func (x *Int32) Swap(new int32) int32 { simrt.Yield("atomic.Swap"); return x.v.Swap(new) }
func (x *Int32) CompareAndSwap(old, new int32) bool {
	simrt.Yield("atomic.CAS")
	return x.v.CompareAndSwap(old, new)
}
func (x *Int32) Add(d int32) int32 { simrt.Yield("atomic.Add"); return x.v.Add(d) }
func (x *Int32) And(m int32) int32 { simrt.Yield("atomic.And"); return x.v.And(m) }
func (x *Int32) Or(m int32) int32  { simrt.Yield("atomic.Or"); return x.v.Or(m) }

type Int64 struct{ v atomic.Int64 }

func (x *Int64) Load() int64          { simrt.Yield("atomic.Load"); return x.v.Load() }
func (x *Int64) Store(val int64)      { simrt.Yield("atomic.Store"); x.v.Store(val) }
func (x *Int64) Swap(new int64) int64 { simrt.Yield("atomic.Swap"); return x.v.Swap(new) }
func (x *Int64) CompareAndSwap(old, new int64) bool {
	simrt.Yield("atomic.CAS")
	return x.v.CompareAndSwap(old, new)
}
func (x *Int64) Add(d int64) int64 { simrt.Yield("atomic.Add"); return x.v.Add(d) }
func (x *Int64) And(m int64) int64 { simrt.Yield("atomic.And"); return x.v.And(m) }
func (x *Int64) Or(m int64) int64  { simrt.Yield("atomic.Or"); return x.v.Or(m) }

type Uint32 struct{ v atomic.Uint32 }

func (x *Uint32) Load() uint32           { simrt.Yield("atomic.Load"); return x.v.Load() }
func (x *Uint32) Store(val uint32)       { simrt.Yield("atomic.Store"); x.v.Store(val) }
func (x *Uint32) Swap(new uint32) uint32 { simrt.Yield("atomic.Swap"); return x.v.Swap(new) }
func (x *Uint32) CompareAndSwap(old, new uint32) bool {
	simrt.Yield("atomic.CAS")
	return x.v.CompareAndSwap(old, new)
}
func (x *Uint32) Add(d uint32) uint32 { simrt.Yield("atomic.Add"); return x.v.Add(d) }
func (x *Uint32) And(m uint32) uint32 { simrt.Yield("atomic.And"); return x.v.And(m) }
func (x *Uint32) Or(m uint32) uint32  { simrt.Yield("atomic.Or"); return x.v.Or(m) }

type Uint64 struct{ v atomic.Uint64 }

func (x *Uint64) Load() uint64           { simrt.Yield("atomic.Load"); return x.v.Load() }
func (x *Uint64) Store(val uint64)       { simrt.Yield("atomic.Store"); x.v.Store(val) }
func (x *Uint64) Swap(new uint64) uint64 { simrt.Yield("atomic.Swap"); return x.v.Swap(new) }
func (x *Uint64) CompareAndSwap(old, new uint64) bool {
	simrt.Yield("atomic.CAS")
	return x.v.CompareAndSwap(old, new)
}
func (x *Uint64) Add(d uint64) uint64 { simrt.Yield("atomic.Add"); return x.v.Add(d) }
func (x *Uint64) And(m uint64) uint64 { simrt.Yield("atomic.And"); return x.v.And(m) }
func (x *Uint64) Or(m uint64) uint64  { simrt.Yield("atomic.Or"); return x.v.Or(m) }

type Uintptr struct{ v atomic.Uintptr }

func (x *Uintptr) Load() uintptr            { simrt.Yield("atomic.Load"); return x.v.Load() }
func (x *Uintptr) Store(val uintptr)        { simrt.Yield("atomic.Store"); x.v.Store(val) }
func (x *Uintptr) Swap(new uintptr) uintptr { simrt.Yield("atomic.Swap"); return x.v.Swap(new) }
func (x *Uintptr) CompareAndSwap(old, new uintptr) bool {
	simrt.Yield("atomic.CAS")
	return x.v.CompareAndSwap(old, new)
}
func (x *Uintptr) Add(d uintptr) uintptr { simrt.Yield("atomic.Add"); return x.v.Add(d) }

type Pointer[T any] struct{ v atomic.Pointer[T] }

func (x *Pointer[T]) Load() *T       { simrt.Yield("atomic.Load"); return x.v.Load() }
func (x *Pointer[T]) Store(val *T)   { simrt.Yield("atomic.Store"); x.v.Store(val) }
func (x *Pointer[T]) Swap(new *T) *T { simrt.Yield("atomic.Swap"); return x.v.Swap(new) }
func (x *Pointer[T]) CompareAndSwap(old, new *T) bool {
	simrt.Yield("atomic.CAS")
	return x.v.CompareAndSwap(old, new)
}

func AddInt32(addr *int32, delta int32) int32 {
	simrt.Yield("atomic.Add")
	return atomic.AddInt32(addr, delta)
}
func AddInt64(addr *int64, delta int64) int64 {
	simrt.Yield("atomic.Add")
	return atomic.AddInt64(addr, delta)
}
func AddUint32(addr *uint32, delta uint32) uint32 {
	simrt.Yield("atomic.Add")
	return atomic.AddUint32(addr, delta)
}
func AddUint64(addr *uint64, delta uint64) uint64 {
	simrt.Yield("atomic.Add")
	return atomic.AddUint64(addr, delta)
}
func LoadInt32(addr *int32) int32    { simrt.Yield("atomic.Load"); return atomic.LoadInt32(addr) }
func LoadInt64(addr *int64) int64    { simrt.Yield("atomic.Load"); return atomic.LoadInt64(addr) }
func LoadUint32(addr *uint32) uint32 { simrt.Yield("atomic.Load"); return atomic.LoadUint32(addr) }
func LoadUint64(addr *uint64) uint64 { simrt.Yield("atomic.Load"); return atomic.LoadUint64(addr) }
func LoadPointer(addr *unsafe.Pointer) unsafe.Pointer {
	simrt.Yield("atomic.Load")
	return atomic.LoadPointer(addr)
}
func StoreInt32(addr *int32, val int32) { simrt.Yield("atomic.Store"); atomic.StoreInt32(addr, val) }
func StoreInt64(addr *int64, val int64) { simrt.Yield("atomic.Store"); atomic.StoreInt64(addr, val) }
func StoreUint32(addr *uint32, val uint32) {
	simrt.Yield("atomic.Store")
	atomic.StoreUint32(addr, val)
}
func StoreUint64(addr *uint64, val uint64) {
	simrt.Yield("atomic.Store")
	atomic.StoreUint64(addr, val)
}
func StorePointer(addr *unsafe.Pointer, val unsafe.Pointer) {
	simrt.Yield("atomic.Store")
	atomic.StorePointer(addr, val)
}
func SwapInt32(addr *int32, new int32) int32 {
	simrt.Yield("atomic.Swap")
	return atomic.SwapInt32(addr, new)
}
func SwapInt64(addr *int64, new int64) int64 {
	simrt.Yield("atomic.Swap")
	return atomic.SwapInt64(addr, new)
}
func SwapUint32(addr *uint32, new uint32) uint32 {
	simrt.Yield("atomic.Swap")
	return atomic.SwapUint32(addr, new)
}
func SwapUint64(addr *uint64, new uint64) uint64 {
	simrt.Yield("atomic.Swap")
	return atomic.SwapUint64(addr, new)
}
func CompareAndSwapInt32(addr *int32, old, new int32) bool {
	simrt.Yield("atomic.CAS")
	return atomic.CompareAndSwapInt32(addr, old, new)
}
func CompareAndSwapInt64(addr *int64, old, new int64) bool {
	simrt.Yield("atomic.CAS")
	return atomic.CompareAndSwapInt64(addr, old, new)
}
func CompareAndSwapUint32(addr *uint32, old, new uint32) bool {
	simrt.Yield("atomic.CAS")
	return atomic.CompareAndSwapUint32(addr, old, new)
}
func CompareAndSwapUint64(addr *uint64, old, new uint64) bool {
	simrt.Yield("atomic.CAS")
	return atomic.CompareAndSwapUint64(addr, old, new)
}
func CompareAndSwapPointer(addr *unsafe.Pointer, old, new unsafe.Pointer) bool {
	simrt.Yield("atomic.CAS")
	return atomic.CompareAndSwapPointer(addr, old, new)
}
